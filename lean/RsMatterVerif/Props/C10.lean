import RsMatterVerif.Lemmas.RxPath
/-!
# C10 — a message reaches only its own exchange, and the receive path never wedges

## A. Run-level theorems (over ALL histories of the transition system `Model/RxPath.lean`:
session table + the single RX packet slot + clock; steps = `process_rx`/`decode_packet`/`handle_rx_packet`,
`accept_if`, `ExchangeId::recv`, send, `Exchange::drop`, `initiate_for_session`, session establishment,
session removal, time, the accept-timeout sweep, the orphan sweep, the dropped-exchange closer)
`Reach n` = `n` is reachable from the empty node by ANY history (no side condition: with the repaired
`Sessions::add` — finding `C10-session-id-wrap` — internal session ids stay unique also after the
28-bit counter has wrapped; `Model/RxPath.addSess`).
* `delivered_only_to_owner_run`: in every reachable state, if `recv` of the exchange (uid, idx) returns
  the waiting message, then that exchange's session has the message's local session id AND peer
  (address/node ids: `port`) AND security kind, the exchange has the message's exchange id and the role
  its initiator flag addresses, it is owned by a live `Exchange`, it is the ONLY exchange of the node
  with that identity, and it is the one the transport's own look-up (`get_for_rx` + `get_exch_for_rx`) finds.
* `pending_has_message` (+ `accept_pending_is_stamped`, `empty_slot_no_pending`): an accept-pending
  exchange exists only while its first message waits in the RX slot, it is that message's owner, and its
  `recvAt` stamp is the arrival time of that message (so `rp → recvAt = some _` is an invariant).
* `slot_always_freeable`: in every reachable state with an occupied RX slot: the orphan sweep empties it
  now, or its owner is accept-pending (`accept_if` is enabled; time can advance; from the accept deadline
  on the accept sweep empties it), or its owner is a live `Exchange` (whose `recv` returns it unless a
  retransmission is pending, and whose drop makes the orphan sweep empty it).
* `unclaimed_discarded_within`: liveness under an EXPLICIT fairness hypothesis (`SweepFair`: from every
  point of an infinite run each sweeper is polled before `poll` more milliseconds have passed) and
  time divergence: a message nobody owns (no live `Exchange` ever claims it) has left the RX slot by
  `max (now, arrival + ACCEPT_TIMEOUT_MS) + pollAccept + pollOrphan`.
* `closer_acts_when_dropped`, `dropped_exchange_closed`, `closer_progress`, `closer_drains_all`: in every
  reachable state with a dropped exchange the closer does something; what it does: frees that slot
  (writing the standalone ack iff one is owed) or closes the session (iff a retransmission is pending);
  no other exchange becomes dropped; each such run reduces the number of dropped exchanges, so after
  that many runs none is left.
* `other_exchanges_progress`: with the slot free, a fresh message for ANY owned exchange that is not
  waiting for an acknowledgement is kept for it and its `recv` returns it — whatever state the other
  exchanges of the node are in.

## B. One-step theorems about `Session::post_recv` and the sweep conditions (every `Sess` / `Table`)
* `post_recv_touches_only_owner_slot` (was `delivered_only_to_owner`): which exchange slot `post_recv`
  MUTATES — not who is handed the packet (that is section A); `owner_is_keyed`, `delivery_keeps_identity`;
* `new_exchange_gate` / `new_exchange_gate_complete`, `unknown_exchange_dropped`, `expired_opens_nothing`;
* `sweep_conditions_exhaustive` (was `unclaimed_is_discarded`): the enabling conditions of the two sweeps
  together with {accept-pending before the deadline, initiator-owned, responder-owned} are exhaustive —
  a case split, not liveness; `accept_deadline_passes`, `owner_drop_enables_discard`;
* `closer_finds_dropped` / `closerIdle_nothing`: closer idle ⇒ no dropped exchange (the converse
  direction needs unique internal ids and is `closer_acts_when_dropped` in section A).
-/
namespace C10
open Transport RxPath

/-- the owner of a message is keyed by (exchange id, role): an initiator-flagged message addresses
our responder-role exchange and vice versa; the first such slot is taken -/
theorem owner_is_keyed (s : Sess) (h : RxHdr) (i : Nat) (hf : s.getExchForRx h = some i) :
    ∃ e, s.slot i = some e ∧ e.id = h.exch ∧ e.role.isResponder = h.initiator :=
  let ⟨e, h1, h2, h3, _⟩ := getExchForRx_some s h i hf
  ⟨e, h1, h2, h3⟩

/-- One step, one session: every exchange slot that differs after `post_recv` is the owner's slot
(result `Ok(false)`) or the newly opened one (result `Ok(true)`, the slot was free before). This is
about which slot `post_recv` mutates; who is handed the packet is `delivered_only_to_owner_run`. -/
theorem post_recv_touches_only_owner_slot (s : Sess) (h : RxHdr) (now : Nat) (j : Nat)
    (hchg : (s.postRecv h now).1.slot j ≠ s.slot j) :
    ((s.postRecv h now).2 = .ok false ∧ s.getExchForRx h = some j) ∨
    ((s.postRecv h now).2 = .ok true ∧ s.slot j = none ∧ s.getExchForRx h = none) := by
  have hspec := postRecv_effect s h now
  unfold RecvSpec at hspec
  cases hr : (s.postRecv h now).2 with
  | error er => exact absurd (hspec.2.2 er hr j) hchg
  | ok b =>
    cases b with
    | false =>
      obtain ⟨i, e, m, hg, _, _, hrest⟩ := hspec.1 hr
      by_cases hji : j = i
      · subst hji; exact Or.inl ⟨rfl, hg⟩
      · exact absurd (hrest j hji) hchg
    | true =>
      obtain ⟨hg, _, _, _, i, m, hfree, _, hrest⟩ := hspec.2.1 hr
      by_cases hji : j = i
      · subst hji; exact Or.inr ⟨rfl, hfree, hg⟩
      · exact absurd (hrest j hji) hchg

/-- the owner keeps its identity: delivery changes only the reliability state of the slot -/
theorem delivery_keeps_identity (s : Sess) (h : RxHdr) (now : Nat) (hr : (s.postRecv h now).2 = .ok false) :
    ∃ i e e', s.getExchForRx h = some i ∧ s.slot i = some e ∧ (s.postRecv h now).1.slot i = some e' ∧
      e'.id = e.id ∧ e'.role = e.role := by
  obtain ⟨i, e, m, hg, hs, hs', _⟩ := (postRecv_effect s h now).1 hr
  exact ⟨i, e, _, hg, hs, hs', rfl, rfl⟩

/-- **New-exchange gate** (soundness): an exchange is opened only if nobody owns the message, the
initiator flag is set, the opcode may open an exchange, the session is not expired and a slot was free;
it is opened as an accept-pending responder exchange with the header's id. -/
theorem new_exchange_gate (s : Sess) (h : RxHdr) (now : Nat) (hr : (s.postRecv h now).2 = .ok true) :
    s.getExchForRx h = none ∧ h.initiator = true ∧ h.newOk = true ∧ s.expired = false ∧
    ∃ i e, s.slot i = none ∧ (s.postRecv h now).1.slot i = some e ∧ e.id = h.exch ∧ e.role = .rp := by
  obtain ⟨hg, hi, hn, he, i, m, hfree, hnew, _⟩ := (postRecv_effect s h now).2.1 hr
  exact ⟨hg, hi, hn, he, i, _, hfree, hnew, rfl, rfl⟩

/-- **New-exchange gate** (completeness): when the counter is fresh, nobody owns the message, the flag
and opcode allow it, the session is not expired and a slot can be had, the exchange *is* opened —
traffic of other exchanges does not prevent it. -/
theorem new_exchange_gate_complete (s : Sess) (h : RxHdr) (now : Nat)
    (hd : (Dedup.postRecv s.rx h.ctr s.mode.enc false).2 = true) (hg : s.getExchForRx h = none)
    (hi : h.initiator = true) (hn : h.newOk = true) (he : s.expired = false)
    (hfree : s.exchs.length < Consts.maxExchanges ∨ (firstNone s.exchs 0).isSome) :
    (s.postRecv h now).2 = .ok true := by
  unfold Sess.postRecv
  simp only [hd, Bool.not_true, Bool.false_eq_true, ↓reduceIte]
  generalize hs0 : ({ s with rx := (Dedup.postRecv s.rx h.ctr s.mode.enc false).1 } : Sess) = s0
  have hget : s0.getExchForRx h = none := by subst hs0; exact hg
  have hex : s0.exchs = s.exchs := by subst hs0; rfl
  have hadd : ∃ p, s0.addExch h.exch .rp = some p := by
    unfold Sess.addExch
    simp only [hex]
    rcases hfree with hlt | hsome
    · simp [hlt]
    · by_cases hlt : s.exchs.length < Consts.maxExchanges
      · simp [hlt]
      · cases hf : firstNone s.exchs 0 with
        | none => simp [hf] at hsome
        | some k => simp [hlt]
  obtain ⟨⟨s', i⟩, hp⟩ := hadd
  have hfresh := mrp_postRecv_fresh_ok h.ctr h.ack h.reliable now
  simp only [hget, hi, hn, he, hp, hfresh, Bool.not_true, Bool.or_self, Bool.false_eq_true, ↓reduceIte]

/-- answers to unknown exchanges (and standalone acks / status reports for unknown exchanges) are dropped -/
theorem unknown_exchange_dropped (s : Sess) (h : RxHdr) (now : Nat)
    (hd : (Dedup.postRecv s.rx h.ctr s.mode.enc false).2 = true) (hg : s.getExchForRx h = none)
    (hno : h.initiator = false ∨ h.newOk = false) :
    (s.postRecv h now).2 = .error .noExchange ∧ ∀ j, (s.postRecv h now).1.slot j = s.slot j := by
  have hr : (s.postRecv h now).2 = .error .noExchange := by
    unfold Sess.postRecv
    simp only [hd, Bool.not_true, Bool.false_eq_true, ↓reduceIte]
    generalize hs0 : ({ s with rx := (Dedup.postRecv s.rx h.ctr s.mode.enc false).1 } : Sess) = s0
    have hget : s0.getExchForRx h = none := by subst hs0; exact hg
    simp only [hget]
    rcases hno with h1 | h1 <;> simp [h1]
  exact ⟨hr, (postRecv_effect s h now).2.2 _ hr⟩

/-- an expired session opens no new exchange -/
theorem expired_opens_nothing (s : Sess) (h : RxHdr) (now : Nat) (he : s.expired = true) :
    (s.postRecv h now).2 ≠ .ok true := by
  intro hr
  have := (new_exchange_gate s h now hr).2.2.2.1
  rw [he] at this
  simp at this

/-- non-vacuity: an initiator request opens an exchange; the same id with the other flag is unknown;
a second request with the same id is delivered to the first's exchange; an expired session refuses. -/
def exHdr (c e : Nat) (i : Bool) : RxHdr := { ctr := c, exch := e, initiator := i, ack := none, reliable := true, newOk := true }
def exS1 := ({ uid := 0, ctr := 0, mode := .pase } : Sess).postRecv (exHdr 1 7 true) 0
def exS2 := exS1.1.postRecv (exHdr 2 7 false) 0
def exS3 := exS2.1.postRecv (exHdr 3 7 true) 0
def exS4 := ({ exS3.1 with expired := true } : Sess).postRecv (exHdr 4 8 true) 0
def resCode : Except Err Bool → Nat
  | .ok true => 1
  | .ok false => 2
  | .error .noExchange => 3
  | .error .noSession => 4
  | .error _ => 5
example : (resCode exS1.2, resCode exS2.2, resCode exS3.2, resCode exS4.2) = (1, 3, 2, 4) := by decide

/-! ## The receive slot does not wedge -/

/-- One step, any table (no reachability): the enabling conditions of the two sweeps together with
{accept-pending, initiator-owned, responder-owned} are exhaustive. Not a liveness statement: for an
owned exchange and for an accept-pending one before its deadline no sweep is enabled, and on an
arbitrary table an accept-pending exchange need not even carry a stamp (`recvAt = none`: no sweep
ever fires) — that such states are unreachable is `pending_has_message`; that the slot can always
be freed is `slot_always_freeable`. `port`/`sid` are the packet's peer and session id, `h` its header. -/
theorem sweep_conditions_exhaustive (t : Table) (port sid : Nat) (h : RxHdr) (now : Nat) :
    -- the orphan sweep empties the slot now
    (t.sweepOrphan port sid h now).2 = true ∨
    -- or the message belongs to a live exchange …
    ∃ s i e, (t.getForRx port sid now).2 = some s ∧ s.getExchForRx h = some i ∧ s.slot i = some e ∧
      e.role.isDropped = false ∧
      -- … which is accept-pending, and then the accept sweep empties the slot as soon as the deadline has passed …
      ((e.role = .rp ∧ (e.mrp.hasRxTimedOut Consts.acceptTimeoutMs now = true →
          (t.sweepAccept port sid h now).2 = true)) ∨
      -- … or owned by a live `Exchange` object (initiator-owned or accepted responder)
       e.role = .io ∨ e.role = .ro) := by
  unfold Table.sweepOrphan Table.sweepAccept
  cases hgr : t.getForRx port sid now with
  | mk t' so =>
    cases so with
    | none => left; simp
    | some s =>
      simp only
      cases hg : s.getExchForRx h with
      | none => left; simp
      | some i =>
        simp only
        cases hs : s.slot i with
        | none => left; simp
        | some e =>
          simp only
          cases hd : e.role.isDropped with
          | true => left; rfl
          | false =>
            right
            refine ⟨s, i, e, rfl, hg, hs, hd, ?_⟩
            cases hrole : e.role with
            | io => exact Or.inr (Or.inl rfl)
            | ro => exact Or.inr (Or.inr rfl)
            | rp =>
              left
              refine ⟨rfl, fun hto => ?_⟩
              simp [hto]
            | id => simp [hrole, RoleSt.isDropped] at hd
            | rd => simp [hrole, RoleSt.isDropped] at hd

/-- the accept deadline does pass: an accepted message stamps the exchange with its arrival time, so
`ACCEPT_TIMEOUT_MS` later `has_rx_timed_out` holds (as long as nothing is sent on the exchange) -/
theorem accept_deadline_passes (m : Mrp) (c : Nat) (a : Option Nat) (rel : Bool) (now later : Nat)
    (hok : (m.postRecv c a rel now).2 = none) (hl : now + Consts.acceptTimeoutMs ≤ later) :
    (m.postRecv c a rel now).1.hasRxTimedOut Consts.acceptTimeoutMs later = true := by
  have hrecv : (m.postRecv c a rel now).1.recvAt = some now := by
    unfold Mrp.postRecv at hok ⊢
    cases a with
    | none => cases rel <;> simp
    | some av =>
      cases hm : m.retrans with
      | none => cases rel <;> simp
      | some r =>
        simp only [hm] at hok ⊢
        by_cases hne : r.ctr = av
        · cases rel <;> simp [hne]
        · simp [hne] at hok
  simp [Mrp.hasRxTimedOut, hrecv, hl]

/-- when the owner drops its exchange the slot is freed or marked dropped — never left owned — so
the orphan sweep (or the "unknown exchange" rule) applies to a message still waiting for it -/
theorem owner_drop_enables_discard (s : Sess) (i : Nat) (e : Exch) (hs : s.slot i = some e) :
    (s.removeExch i).1.slot i = none ∨
    ∃ e', (s.removeExch i).1.slot i = some e' ∧ e'.role.isDropped = true ∧ e'.id = e.id := by
  have hlt := slot_lt s i e hs
  unfold Sess.removeExch
  simp only [hs]
  split
  · right
    refine ⟨{ e with role := e.role.setDropped }, by rw [slot_set]; simp [hlt], ?_, rfl⟩
    cases e.role <;> rfl
  · left
    rw [slot_set]; simp [hlt]

/-- `findDropped` misses nothing -/
theorem findDropped_none (want : Bool) (l : List Sess) (h : findDropped want l = none) :
    ∀ s ∈ l, ∀ i e, s.slot i = some e → ¬ (e.role.isDropped = true ∧ e.mrp.isRetransPending = want) :=
  RxPath.findDropped_none want l h

/-- the closer has nothing to do: neither search finds a dropped exchange -/
def closerIdle (t : Table) : Prop := findDropped true t.sessions = none ∧ findDropped false t.sessions = none

/-- the closer's two searches miss no dropped exchange: when both come back empty no exchange of any
session is in a dropped state (any table). The direction the property needs — a dropped exchange
exists ⇒ the closer acts on one — is false on tables with duplicate internal ids and is proved for
reachable states as `closer_acts_when_dropped`. -/
theorem closer_finds_dropped (t : Table) (hn : closerIdle t) :
    ∀ s ∈ t.sessions, ∀ i e, s.slot i = some e → e.role.isDropped = false := by
  intro s hs i e hsl
  cases hd : e.role.isDropped with
  | false => rfl
  | true =>
    exfalso
    cases hr : e.mrp.isRetransPending with
    | true => exact findDropped_none true t.sessions hn.1 s hs i e hsl ⟨hd, hr⟩
    | false => exact findDropped_none false t.sessions hn.2 s hs i e hsl ⟨hd, hr⟩

theorem closerIdle_nothing (t : Table) (now : Nat) (hn : closerIdle t) : (t.sweepDropped now).2 = .nothing := by
  unfold Table.sweepDropped
  simp [hn.1, hn.2]

example : closerIdle {} := ⟨rfl, rfl⟩

/-! # A. Run-level theorems over the receive-path transition system -/

/-- **Delivered only to the owner** (every history): whenever `recv` of the exchange (uid, idx) returns
a message, that message was waiting in the RX slot and the exchange is the one identified by the
message's session (local session id, peer address / node ids, security kind), exchange id and role;
it is owned by a live `Exchange`; NO other exchange of the node has this identity; and it is the
exchange the transport's own look-up finds. (Seeded change C10-a — `recv` matching on the local
session id only — falsifies this: two unsecured sessions of different peers, same exchange id.) -/
theorem delivered_only_to_owner_run {n : Node} (hr : Reach n) {uid idx : Nat} {m : Msg}
    (hd : (step n (.recv uid idx)).2 = .delivered uid idx m) :
    ∃ r s e, n.rx = some r ∧ r.m = m ∧ s ∈ n.t.sessions ∧ s.uid = uid ∧ s.slot idx = some e ∧
      (s.localSid = m.sid ∧ s.port = m.port ∧ s.mode.enc = (m.sid != 0)) ∧
      (e.id = m.exch ∧ e.role.isResponder = m.initiator) ∧ RoleSt.isOwned e.role = true ∧
      (∀ s' ∈ n.t.sessions, ∀ j f, s'.slot j = some f → s'.localSid = m.sid → s'.port = m.port →
          f.id = m.exch → f.role.isResponder = m.initiator → s' = s ∧ j = idx) ∧
      ownerOf n.t m = some (uid, idx) := by
  have hi := inv_reach hr
  simp only [step, recv] at hd
  cases hs : n.t.sess uid with
  | none => rw [get_absent hs] at hd; simp at hd
  | some s =>
    obtain ⟨hm, hu⟩ := sess_some_mem n.t uid s hs
    subst hu
    rw [get_mem hi.tinv.uidN hm] at hd
    simp only at hd
    cases he : (touch s n.now).slot idx with
    | none => rw [he] at hd; simp at hd
    | some e =>
      rw [he] at hd
      simp only at hd
      split at hd
      · simp at hd
      · rename_i hown
        split at hd
        · simp at hd
        · cases hrx : n.rx with
          | none => rw [hrx] at hd; simp at hd
          | some r =>
            rw [hrx] at hd
            simp only at hd
            split at hd
            · rename_i hmatch
              simp only [Out.delivered.injEq, true_and] at hd
              simp only [recvMatch, Bool.and_eq_true] at hmatch
              obtain ⟨hf, hfor⟩ := hmatch
              rw [(touch_same s n.now).isForRx] at hf
              have he' : s.slot idx = some e := he
              have hf' := hf
              have hfor' := hfor
              simp only [Sess.isForRx, Bool.and_eq_true, beq_iff_eq, Bool.not_eq_true'] at hf
              simp only [Exch.isForRx, Bool.and_eq_true, beq_iff_eq] at hfor
              have hown' : RoleSt.isOwned e.role = true := by simpa using hown
              refine ⟨r, s, e, rfl, hd, hm, rfl, he', ?_, ?_, hown', ?_, ?_⟩
              · rw [← hd]; exact ⟨hf.1.1.1, hf.1.1.2, hf.1.2⟩
              · rw [← hd]; exact ⟨hfor.1, hfor.2.symm⟩
              · intro s' hs' j f hj h1 h2 h3 h4
                rw [← hd] at h1 h2 h3 h4
                have hu := hi.tinv.keyI s' hs' s hm (by rw [h1, hf.1.1.1]) (by rw [h2, hf.1.1.2])
                have hss := nodup_map_inj (fun (x : Sess) => x.uid) _ hi.tinv.uidN s' hs' s hm hu
                subst hss
                exact ⟨rfl, hi.tinv.uniq s' hs' j idx f e hj he' (by rw [h3]; exact hfor.1.symm)
                  (by rw [h4]; exact hfor.2)⟩
              · rw [← hd, ownerOf_eq hi.tinv hm hf', getExchForRx_of_slot s (hi.tinv.uniq s hm) _ idx e he' hfor']
                rfl
            · simp at hd

/-- the same for an explicit history: after ANY list of steps from the empty node -/
theorem delivered_only_to_owner_history (now0 : Nat) (ops : List Op)
    {uid idx : Nat} {m : Msg}
    (hd : (step (run { now := now0 } ops).1 (.recv uid idx)).2 = .delivered uid idx m) :
    ownerOf (run { now := now0 } ops).1.t m = some (uid, idx) ∧ (run { now := now0 } ops).1.rx.map (·.m) = some m := by
  obtain ⟨r, _, _, hrx, hrm, _, _, _, _, _, _, _, how⟩ :=
    delivered_only_to_owner_run (reach_run (Reach.init now0) ops) hd
  exact ⟨how, by rw [hrx]; simp [hrm]⟩

/-- **An accept-pending exchange always has its message** (every history): it exists only while the
message that opened it waits in the RX slot, it is that message's owner for the transport's look-up,
and its `recvAt` stamp is the message's arrival time, which is not in the future. -/
theorem pending_has_message {n : Node} (hr : Reach n) {s : Sess} (hs : s ∈ n.t.sessions) {i : Nat} {e : Exch}
    (he : s.slot i = some e) (hrp : e.role = .rp) :
    ∃ r, n.rx = some r ∧ ownerOf n.t r.m = some (s.uid, i) ∧ e.mrp.recvAt = some r.arrivedAt ∧
      r.arrivedAt ≤ n.now := by
  have hi := inv_reach hr
  obtain ⟨r, hrx, hf, hfor, hst⟩ := hi.pend s hs i e he hrp
  refine ⟨r, hrx, ?_, hst, hi.time r hrx⟩
  rw [ownerOf_eq hi.tinv hs hf, getExchForRx_of_slot s (hi.tinv.uniq s hs) _ i e he hfor]
  rfl

/-- the invariant the audit asked for: accept-pending ⇒ stamped -/
theorem accept_pending_is_stamped {n : Node} (hr : Reach n) {s : Sess} (hs : s ∈ n.t.sessions) {i : Nat} {e : Exch}
    (he : s.slot i = some e) (hrp : e.role = .rp) : ∃ t0, e.mrp.recvAt = some t0 ∧ t0 ≤ n.now := by
  obtain ⟨r, _, _, h1, h2⟩ := pending_has_message hr hs he hrp
  exact ⟨_, h1, h2⟩

/-- no accept-pending exchange is left behind when the slot is empty (the `xp = 0` clause of the
system-level oracle) -/
theorem empty_slot_no_pending {n : Node} (hr : Reach n) (hrx : n.rx = none) {s : Sess} (hs : s ∈ n.t.sessions)
    {i : Nat} {e : Exch} (he : s.slot i = some e) : e.role ≠ .rp := by
  intro hrp
  obtain ⟨r, h1, _⟩ := pending_has_message hr hs he hrp
  rw [hrx] at h1; cases h1

/-- **The RX slot can always be freed** (every reachable state with an occupied slot). -/
theorem slot_always_freeable {n : Node} (hr : Reach n) {r : Held} (hrx : n.rx = some r) :
    -- (a) nobody can claim the message: the orphan sweep empties the slot now
    ((step n .sweepOrphan).2 = .swept true ∧ (step n .sweepOrphan).1.rx = none) ∨
    -- (b) its owner is accept-pending: a responder can accept it now; time can advance; and from the
    --     accept deadline on the accept sweep empties the slot
    (∃ s ∈ n.t.sessions, ∃ i e, s.slot i = some e ∧ e.role = .rp ∧ ownerOf n.t r.m = some (s.uid, i) ∧
        e.mrp.recvAt = some r.arrivedAt ∧ (step n .accept).2 = .accepted s.uid i ∧
        ∀ d, r.arrivedAt + Consts.acceptTimeoutMs ≤ n.now + d →
          (step (step n (.tick d)).1 .sweepAccept).2 = .swept true ∧
          (step (step n (.tick d)).1 .sweepAccept).1.rx = none) ∨
    -- (c) its owner is a live `Exchange`: `recv` returns it (unless the exchange still waits for an
    --     acknowledgement), and if the owner is dropped instead the orphan sweep empties the slot
    (∃ s ∈ n.t.sessions, ∃ i e, s.slot i = some e ∧ RoleSt.isOwned e.role = true ∧
        ownerOf n.t r.m = some (s.uid, i) ∧
        (e.mrp.isRetransPending = false →
          (step n (.recv s.uid i)).2 = .delivered s.uid i r.m ∧ (step n (.recv s.uid i)).1.rx = none) ∧
        (step (step n (.dropEx s.uid i)).1 .sweepOrphan).2 = .swept true ∧
        (step (step n (.dropEx s.uid i)).1 .sweepOrphan).1.rx = none) := by
  have hi := inv_reach hr
  rcases getForRx_cases n.t hi.tinv r.m.port r.m.sid n.now with ⟨s, hs, hf, _⟩ | ⟨hnone, _⟩
  · cases hx : s.getExchForRx r.m.hdr with
    | none =>
      left
      exact sweepOrphan_node hrx ((sweepOrphan_eval hi.tinv hs hf _ _).2 (fun i e hg => by rw [hx] at hg; cases hg))
    | some i =>
      obtain ⟨e, he, hfor⟩ := getExchForRx_slot s _ i hx
      have how : ownerOf n.t r.m = some (s.uid, i) := by rw [ownerOf_eq hi.tinv hs hf, hx]; rfl
      cases hrole : e.role with
      | id =>
        left
        refine sweepOrphan_node hrx ((sweepOrphan_eval hi.tinv hs hf _ _).2 (fun j f hg hsj => ?_))
        rw [hx] at hg; cases hg; rw [he] at hsj; cases hsj; rw [hrole]; rfl
      | rd =>
        left
        refine sweepOrphan_node hrx ((sweepOrphan_eval hi.tinv hs hf _ _).2 (fun j f hg hsj => ?_))
        rw [hx] at hg; cases hg; rw [he] at hsj; cases hsj; rw [hrole]; rfl
      | rp =>
        right; left
        obtain ⟨r', hr', _, _, hst⟩ := hi.pend s hs i e he hrole
        rw [hrx] at hr'; cases hr'
        refine ⟨s, hs, i, e, he, hrole, how, hst, accept_fires hi hrx hs hf he hfor hrole, ?_⟩
        intro d hd
        have hrx' : (step n (.tick d)).1.rx = some r := hrx
        refine sweepAccept_node hrx' ?_
        show (n.t.sweepAccept r.m.port r.m.sid r.m.hdr (n.now + d)).2 = true
        refine sweepAccept_fires hi.tinv hs hf he hfor hrole ?_
        simp [Mrp.hasRxTimedOut, hst, hd]
      | io =>
        right; right
        have hown : RoleSt.isOwned e.role = true := by rw [hrole]; rfl
        exact ⟨s, hs, i, e, he, hown, how, fun hnr => recv_fires hi hrx hs hf he hfor hown hnr,
          orphan_after_drop hi hrx hs hf he hfor hown⟩
      | ro =>
        right; right
        have hown : RoleSt.isOwned e.role = true := by rw [hrole]; rfl
        exact ⟨s, hs, i, e, he, hown, how, fun hnr => recv_fires hi hrx hs hf he hfor hown hnr,
          orphan_after_drop hi hrx hs hf he hfor hown⟩
  · left
    exact sweepOrphan_node hrx (sweepOrphan_eval_none hi.tinv hnone _ _)

/-! ## Liveness under an explicit fairness hypothesis -/

/-- an infinite run of the node (the scheduler's choices are the sequence `op`) -/
structure Run where
  st : Nat → Node
  op : Nat → Op
  next : ∀ k, st (k + 1) = (step (st k) (op k)).1
  reach0 : Reach (st 0)

/-- **Fairness hypothesis** (not proved — it is the executor's and the timers' obligation): from every
point of the run the accept-timeout sweeper is polled again before `pollA` more milliseconds have
passed (`process_accept_timeout_rx` re-arms a 50 ms timer) and the orphan sweeper before `pollO`
(`process_orphaned_rx` is woken by every change of the RX slot / session table). In particular the
clock does not jump over a poll. -/
def SweepFair (ρ : Run) (pollA pollO : Nat) : Prop :=
  (∀ k, ∃ j, k ≤ j ∧ ρ.op j = .sweepAccept ∧ (ρ.st j).now ≤ (ρ.st k).now + pollA) ∧
  (∀ k, ∃ j, k ≤ j ∧ ρ.op j = .sweepOrphan ∧ (ρ.st j).now ≤ (ρ.st k).now + pollO)

/-- time does not stop -/
def TimeDiverges (ρ : Run) : Prop := ∀ T, ∃ j, T ≤ (ρ.st j).now

/-- some live `Exchange` can claim the message -/
def OwnedClaim (n : Node) (m : Msg) : Prop :=
  ∃ s ∈ n.t.sessions, ∃ i e, s.isForRx m.port m.sid = true ∧ s.slot i = some e ∧ e.isForRx m.hdr = true ∧
    RoleSt.isOwned e.role = true

theorem Run.reach (ρ : Run) : ∀ k, Reach (ρ.st k) := by
  intro k
  induction k with
  | zero => exact ρ.reach0
  | succ k ih => rw [ρ.next k]; exact Reach.step _ ih

theorem Run.now_mono (ρ : Run) (j : Nat) : ∀ d, (ρ.st j).now ≤ (ρ.st (j + d)).now := by
  intro d
  induction d with
  | zero => exact Nat.le_refl _
  | succ d ih =>
    have : ρ.st (j + (d + 1)) = (step (ρ.st (j + d)) (ρ.op (j + d))).1 := ρ.next (j + d)
    rw [this]
    exact Nat.le_trans ih (now_step _ _).1

theorem Run.now_le (ρ : Run) {i j : Nat} (h : i ≤ j) : (ρ.st i).now ≤ (ρ.st j).now := by
  have := ρ.now_mono i (j - i)
  rwa [Nat.add_sub_cancel' h] at this

/-- a waiting message stays until the slot is emptied -/
theorem Run.persist (ρ : Run) {j : Nat} {x : Held} (hx : (ρ.st j).rx = some x) :
    ∀ d, (∃ i, j ≤ i ∧ i < j + d ∧ (ρ.st (i + 1)).rx = none) ∨ (ρ.st (j + d)).rx = some x := by
  intro d
  induction d with
  | zero => exact Or.inr hx
  | succ d ih =>
    rcases ih with ⟨i, h1, h2, h3⟩ | h
    · exact Or.inl ⟨i, h1, by omega, h3⟩
    · have hn : ρ.st (j + d + 1) = (step (ρ.st (j + d)) (ρ.op (j + d))).1 := ρ.next (j + d)
      rcases rx_step (ρ.st (j + d)) (ρ.op (j + d)) with h1 | h1 | h1
      · right; show (ρ.st (j + d + 1)).rx = some x; rw [hn, h1]; exact h
      · left; exact ⟨j + d, by omega, by omega, by rw [hn]; exact h1⟩
      · rw [h] at h1; cases h1

/-- … and while it waits with no accept-pending exchange, none appears -/
theorem Run.persist_noPending (ρ : Run) {j : Nat} {x : Held} (hx : (ρ.st j).rx = some x)
    (hnp : NoPending (ρ.st j).t) :
    ∀ d, (∃ i, j ≤ i ∧ i < j + d ∧ (ρ.st (i + 1)).rx = none) ∨
      ((ρ.st (j + d)).rx = some x ∧ NoPending (ρ.st (j + d)).t) := by
  intro d
  induction d with
  | zero => exact Or.inr ⟨hx, hnp⟩
  | succ d ih =>
    rcases ih with ⟨i, h1, h2, h3⟩ | ⟨h, hp⟩
    · exact Or.inl ⟨i, h1, by omega, h3⟩
    · have hn : ρ.st (j + d + 1) = (step (ρ.st (j + d)) (ρ.op (j + d))).1 := ρ.next (j + d)
      have hnp' : NoPending (ρ.st (j + d + 1)).t := by
        rw [hn]
        exact noPending_step (inv_reach (ρ.reach _)) (by rw [h]; simp) hp _
      rcases rx_step (ρ.st (j + d)) (ρ.op (j + d)) with h1 | h1 | h1
      · right; exact ⟨by show (ρ.st (j + d + 1)).rx = some x; rw [hn, h1]; exact h, hnp'⟩
      · left; exact ⟨j + d, by omega, by omega, by rw [hn]; exact h1⟩
      · rw [h] at h1; cases h1

theorem exists_least (p : Nat → Prop) : ∀ n, p n → ∃ m, p m ∧ ∀ j, j < m → ¬ p j := by
  intro n
  induction n using Nat.strongRecOn with
  | _ n ih =>
    intro hn
    by_cases h : ∃ j, j < n ∧ p j
    · obtain ⟨j, hj, hpj⟩ := h
      exact ih j hj hpj
    · exact ⟨n, hn, fun j hj hp => h ⟨j, hj, hp⟩⟩

/-- **The receive path never wedges on an unclaimed message** (liveness, with a bound): in every fair
run in which time does not stop, a message that waits in the RX slot and that no live `Exchange` ever
claims has left the slot by `max (now, arrival + ACCEPT_TIMEOUT_MS) + pollA + pollO`; measured from
its arrival that is the accept deadline plus one poll of each sweeper. -/
theorem unclaimed_discarded_within (ρ : Run) {pollA pollO : Nat} (hfair : SweepFair ρ pollA pollO)
    (hdiv : TimeDiverges ρ) {k : Nat} {x : Held} (hx : (ρ.st k).rx = some x)
    (hun : ∀ j, k ≤ j → (ρ.st j).rx = some x → ¬ OwnedClaim (ρ.st j) x.m) :
    ∃ j, k ≤ j ∧ (ρ.st (j + 1)).rx = none ∧
      (ρ.st j).now ≤ max (ρ.st k).now (x.arrivedAt + Consts.acceptTimeoutMs) + pollA + pollO := by
  -- A: an accept sweep at or after the deadline, not later than one poll after `max now deadline`
  have stepA : ∃ a, k ≤ a ∧ ρ.op a = .sweepAccept ∧ x.arrivedAt + Consts.acceptTimeoutMs ≤ (ρ.st a).now ∧
      (ρ.st a).now ≤ max (ρ.st k).now (x.arrivedAt + Consts.acceptTimeoutMs) + pollA := by
    by_cases hk : x.arrivedAt + Consts.acceptTimeoutMs ≤ (ρ.st k).now
    · obtain ⟨a, h1, h2, h3⟩ := hfair.1 k
      exact ⟨a, h1, h2, Nat.le_trans hk (ρ.now_le h1), by
        have : (ρ.st k).now ≤ max (ρ.st k).now (x.arrivedAt + Consts.acceptTimeoutMs) := Nat.le_max_left _ _
        omega⟩
    · obtain ⟨j1, hj1⟩ := hdiv (x.arrivedAt + Consts.acceptTimeoutMs)
      obtain ⟨j0, hj0, hmin⟩ := exists_least (fun j => x.arrivedAt + Consts.acceptTimeoutMs ≤ (ρ.st j).now) j1 hj1
      have hkj : k < j0 := by
        apply Classical.byContradiction
        intro hnot
        have := ρ.now_le (Nat.le_of_not_lt hnot)
        omega
      have hprev : (ρ.st (j0 - 1)).now < x.arrivedAt + Consts.acceptTimeoutMs :=
        Nat.lt_of_not_le (hmin (j0 - 1) (by omega))
      obtain ⟨a, h1, h2, h3⟩ := hfair.1 (j0 - 1)
      have ha : j0 ≤ a := by
        apply Classical.byContradiction
        intro hnot
        have hae : a = j0 - 1 := by omega
        have hn := ρ.next (j0 - 1)
        have hj : j0 - 1 + 1 = j0 := by omega
        rw [hj] at hn
        have := (now_step (ρ.st (j0 - 1)) (ρ.op (j0 - 1))).2 (by rw [← hae, h2]; intro d hd; cases hd)
        rw [← hn] at this
        omega
      refine ⟨a, by omega, h2, Nat.le_trans hj0 (ρ.now_le ha), ?_⟩
      have : x.arrivedAt + Consts.acceptTimeoutMs ≤ max (ρ.st k).now (x.arrivedAt + Consts.acceptTimeoutMs) :=
        Nat.le_max_right _ _
      omega
  obtain ⟨a, hka, hopa, hdl, hta⟩ := stepA
  -- B: up to `a` the message either left the slot or still waits
  have hpa := ρ.persist hx (a - k)
  rw [Nat.add_sub_cancel' hka] at hpa
  rcases hpa with ⟨i, h1, h2, h3⟩ | hxa
  · exact ⟨i, h1, h3, by have := ρ.now_le (Nat.le_of_lt h2); omega⟩
  · have hia := inv_reach (ρ.reach a)
    have hna : ρ.st (a + 1) = (sweepAccept (ρ.st a)).1 := by rw [ρ.next a, hopa]; rfl
    by_cases hnp : NoPending (ρ.st a).t
    · -- nobody accept-pending: the next orphan sweep discards the message
      obtain ⟨o, hao, hopo, hto⟩ := hfair.2 a
      have hpo := ρ.persist_noPending hxa hnp (o - a)
      rw [Nat.add_sub_cancel' hao] at hpo
      rcases hpo with ⟨i, h1, h2, h3⟩ | ⟨hxo, hnpo⟩
      · exact ⟨i, by omega, h3, by have := ρ.now_le (Nat.le_of_lt h2); omega⟩
      · have hio := inv_reach (ρ.reach o)
        have hno : ρ.st (o + 1) = (sweepOrphan (ρ.st o)).1 := by rw [ρ.next o, hopo]; rfl
        refine ⟨o, by omega, ?_, by omega⟩
        rw [hno]
        refine (sweepOrphan_node hxo ?_).2
        rcases getForRx_cases (ρ.st o).t hio.tinv x.m.port x.m.sid (ρ.st o).now with ⟨s, hs, hf, _⟩ | ⟨hnone, _⟩
        · rw [sweepOrphan_eval hio.tinv hs hf]
          intro i e hg hsi
          obtain ⟨e', hsi', hfor⟩ := getExchForRx_slot s _ i hg
          rw [hsi] at hsi'; cases hsi'
          cases hrole : e.role with
          | id => rfl
          | rd => rfl
          | rp => exact absurd hrole (hnpo s hs i e hsi)
          | io => exact absurd ⟨s, hs, i, e, hf, hsi, hfor, by rw [hrole]; rfl⟩ (hun o (by omega) hxo)
          | ro => exact absurd ⟨s, hs, i, e, hf, hsi, hfor, by rw [hrole]; rfl⟩ (hun o (by omega) hxo)
        · exact sweepOrphan_eval_none hio.tinv hnone _ _
    · -- an accept-pending exchange exists: it owns the message and its deadline has passed
      have : ∃ s ∈ (ρ.st a).t.sessions, ∃ i e, s.slot i = some e ∧ e.role = .rp := by
        apply Classical.byContradiction
        intro hno
        apply hnp
        intro s hs i e he hr
        exact hno ⟨s, hs, i, e, he, hr⟩
      obtain ⟨s, hs, i, e, he, hrp⟩ := this
      obtain ⟨r', hr', hf, hfor, hst⟩ := hia.pend s hs i e he hrp
      rw [hxa] at hr'; cases hr'
      refine ⟨a, hka, ?_, by omega⟩
      rw [hna]
      refine (sweepAccept_node hxa ?_).2
      refine sweepAccept_fires hia.tinv hs hf he hfor hrp ?_
      simp [Mrp.hasRxTimedOut, hst, hdl]

/-! ## The dropped-exchange closer -/

/-- **The closer acts whenever a dropped exchange exists** (every reachable state) -/
theorem closer_acts_when_dropped {n : Node} (hr : Reach n) {s : Sess} (hs : s ∈ n.t.sessions) {i : Nat} {e : Exch}
    (he : s.slot i = some e) (hd : e.role.isDropped = true) : (step n .closer).2 ≠ .closer .nothing := by
  intro h
  have := closer_acts (inv_reach hr).tinv n.now ⟨s.uid, i, s, hs, rfl, e, he, hd⟩
  apply this
  simpa [step, closer] using h

/-- **A dropped exchange is closed as required** (every reachable state): one run of the closer either
finds nothing — then no exchange is dropped —, or closes the session of a dropped exchange that still
has a retransmission pending (the session is gone afterwards), or frees the slot of a dropped exchange
without one, writing the standalone acknowledgement exactly if one is owed. No exchange becomes
dropped by it, so the set of dropped exchanges strictly shrinks. -/
theorem dropped_exchange_closed {n : Node} (hr : Reach n) :
    CloserSpec n.t (step n .closer).1.t (n.t.sweepDropped n.now).2 :=
  closer_effect (inv_reach hr).tinv n.now

/-- **Every dropped exchange is eventually closed**: each run of the closer that finds a dropped
exchange reduces their number (`closer_decreases`), so after as many runs as there are dropped
exchanges (and no new drops in between) none is left. -/
theorem closer_drains_all {n : Node} (hr : Reach n) :
    ∀ uid i, ¬ DroppedAt (closerRuns (droppedCount n.t) n).t uid i :=
  (droppedCount_zero_iff _).1 (closer_drains _ n (inv_reach hr) (Nat.le_refl _))

theorem closer_progress {n : Node} (hr : Reach n) (hpos : 0 < droppedCount n.t) :
    droppedCount (step n .closer).1.t < droppedCount n.t :=
  closer_decreases (inv_reach hr).tinv n.now hpos

/-! ## Traffic of the other exchanges keeps flowing -/

/-- **Other exchanges progress** (every reachable state with a free RX slot — which
`unclaimed_discarded_within` / `slot_always_freeable` provide): a fresh message (not a standalone
ack, not `CloseSession`) for ANY exchange that is owned by a live `Exchange` and not waiting for an
acknowledgement is kept in the slot for exactly that exchange, and the exchange's `recv` returns it —
whatever the other exchanges of the node are doing (dropped, accept-timed-out, stalled). -/
theorem other_exchanges_progress {n : Node} (hr : Reach n) (hrx : n.rx = none)
    {s : Sess} (hs : s ∈ n.t.sessions) {i : Nat} {e : Exch} (he : s.slot i = some e)
    (hown : RoleSt.isOwned e.role = true) (hnr : e.mrp.retrans = none) (m : Msg) (rnd : Nat)
    (hf : s.isForRx m.port m.sid = true) (hfor : e.isForRx m.hdr = true)
    (hk1 : m.kind ≠ .sack) (hk2 : m.kind ≠ .close)
    (hfresh : (Dedup.postRecv s.rx m.ctr s.mode.enc false).2 = true) :
    (step n (.arrive m rnd)).2 = .kept s.uid i false ∧
    (step (step n (.arrive m rnd)).1 (.recv s.uid i)).2 = .delivered s.uid i m ∧
    (step (step n (.arrive m rnd)).1 (.recv s.uid i)).1.rx = none := by
  have hi := inv_reach hr
  obtain ⟨harr, m', hsl, hm'⟩ := arrive_owner_eval hi hrx hs he hnr m rnd hf hfor hk1 hk2 hfresh
  have hi1 : Inv (step n (.arrive m rnd)).1 := inv_step hi _
  have hstep : step n (.arrive m rnd) = arrive n m rnd := rfl
  rw [hstep, harr] at hi1 ⊢
  refine ⟨rfl, ?_⟩
  obtain ⟨ht1, hm1⟩ := get_tinv hi.tinv hs n.now
  have hsame := (postRecv_same (touch s n.now) m.hdr n.now (ht1.nExch _ hm1)).1
  have hy : ((touch s n.now).postRecv m.hdr n.now).1 ∈
      ((n.t.setSess (touch s n.now)).setSess ((touch s n.now).postRecv m.hdr n.now).1).sessions :=
    mem_setSess_self ht1.uidN hm1 hsame.uid
  have hyf : ((touch s n.now).postRecv m.hdr n.now).1.isForRx m.port m.sid = true := by
    rw [hsame.isForRx, (touch_same s n.now).isForRx]; exact hf
  have hfire := recv_fires hi1 (r := { m := m, arrivedAt := n.now }) rfl hy hyf hsl hfor hown
    (by simp [Mrp.isRetransPending, hm'])
  have hu : ((touch s n.now).postRecv m.hdr n.now).1.uid = s.uid := hsame.uid
  rw [hu] at hfire
  exact hfire

/-! ## Non-vacuity: concrete histories -/

def exMa : Msg := { port := 11, sid := 0, ctr := 5, exch := 7, initiator := true, kind := .newSess }
def exMb : Msg := { port := 22, sid := 0, ctr := 9, exch := 7, initiator := true, kind := .newSess }
def exMa2 : Msg := { port := 11, sid := 0, ctr := 6, exch := 7, initiator := true, kind := .other }

/-- two peers, two unsecured sessions, the SAME exchange id: each message reaches the exchange of its
own session only (`recv` of the other one stays blocked) — the situation of seeded change C10-a -/
def exOpsAB : List Op := [.arrive exMa 100, .accept, .recv 0 0, .arrive exMb 200, .recv 0 0, .accept, .recv 1 0,
  .arrive exMa2 0, .recv 1 0, .recv 0 0]

example : (run {} exOpsAB).2 =
    [.kept 0 0 true, .accepted 0 0, .delivered 0 0 exMa, .kept 1 0 true, .blocked, .accepted 1 0,
     .delivered 1 0 exMb, .kept 0 0 false, .blocked, .delivered 0 0 exMa2] := by decide

/-- `delivered_only_to_owner_run` instantiated on the reachable state before the last step above -/
example : ownerOf (run {} (exOpsAB.take 9)).1.t exMa2 = some (0, 0) :=
  (delivered_only_to_owner_history 0 (exOpsAB.take 9) (uid := 0) (idx := 0) (m := exMa2) (by decide)).1

/-- an unclaimed first message: nothing happens 999 ms after its arrival, at 1000 ms the accept sweep
discards it and marks the exchange dropped, the closer then frees the slot and writes the ack it owes;
a second run of the closer finds nothing -/
example : (run {} [.arrive exMa 100, .tick 999, .sweepAccept, .sweepOrphan, .tick 1, .sweepAccept, .closer, .closer]).2 =
    [.kept 0 0 true, .ok, .swept false, .swept false, .ok, .swept true,
     .closer (.closedExchange 0 0 7 (some (100, 5))), .closer .nothing] := by decide

/-- a reachable state with an accept-pending exchange: the hypotheses of `pending_has_message`,
`slot_always_freeable` (case b), `accept_pending_is_stamped` are satisfiable -/
example : Reach (run {} [.arrive exMa 100, .tick 5]).1 ∧
    (run {} [.arrive exMa 100, .tick 5]).1.rx = some { m := exMa, arrivedAt := 0 } ∧
    ((run {} [.arrive exMa 100, .tick 5]).1.t.sessions.map (fun s => s.exchs.map (fun o => o.map (·.role)))) = [[some .rp]] :=
  ⟨reach_run (Reach.init 0) _, by decide, by decide⟩

/-- a reachable state with a dropped exchange that owes an ack (hypotheses of `closer_acts_when_dropped`),
and one whose session must be closed because a retransmission is pending -/
example : ((run {} [.arrive exMa 100, .accept, .recv 0 0, .dropEx 0 0]).1.t.sessions.map
      (fun s => s.exchs.map (fun o => o.map (·.role)))) = [[some .rd]] ∧
    (run {} [.arrive exMa 100, .accept, .recv 0 0, .dropEx 0 0, .closer]).2.getLast? =
      some (.closer (.closedExchange 0 0 7 (some (100, 5)))) ∧
    (run {} [.arrive exMa 100, .accept, .recv 0 0, .send 0 0 true, .dropEx 0 0, .closer]).2.getLast? =
      some (.closer (.closedSession 0 1 101)) := by decide

/-- the owner's message is orphaned when its session is removed: the orphan sweep discards it (case a) -/
example : (run {} [.arrive exMa 100, .accept, .removeSess 0, .sweepAccept, .sweepOrphan]).2 =
    [.kept 0 0 true, .accepted 0 0, .ok, .swept false, .swept true] := by decide

/-- `other_exchanges_progress` on a concrete state: session 0's exchange was dropped with an ack
pending (and waits for the closer), session 1's owned exchange still gets its message -/
example : (run {} [.arrive exMa 100, .accept, .recv 0 0, .arrive exMb 200, .accept, .recv 1 0, .dropEx 0 0,
      .arrive { exMb with ctr := 10, kind := .other } 0, .recv 1 0]).2.drop 6 =
    [.ok, .kept 1 0 false, .delivered 1 0 { exMb with ctr := 10, kind := .other }] := by decide

/-- non-vacuity: two dropped exchanges (one owes an ack, one nothing), two closer runs, none left -/
example :
    let n := (run {} [.arrive exMa 100, .accept, .recv 0 0, .dropEx 0 0,
                      .arrive { exMb with reliable := false } 200, .tick 1000, .sweepAccept]).1
    droppedCount n.t = 2 ∧ droppedCount (closerRuns 2 n).t = 0 := by decide

/-! ### a fair infinite run with an unclaimed message -/

def fairM : Msg := { port := 11, sid := 0, ctr := 5, exch := 7, initiator := true, kind := .newSess }
def fairT0 : Table := { nextUid := 1, nextSid := 1, nextExch := 1, sessions := [] }
def fairX0 : Held := { m := fairM, arrivedAt := 0 }
def fairOp (k : Nat) : Op := if k % 3 = 0 then .tick 25 else if k % 3 = 1 then .sweepAccept else .sweepOrphan
def fairSt (k : Nat) : Node := { t := fairT0, rx := if k ≤ 2 then some fairX0 else none, now := 25 * ((k + 2) / 3) }

theorem fairSt0 : fairSt 0 = (run {} [.arrive fairM 100, .removeSess 0]).1 := by decide

theorem fairNext (k : Nat) : fairSt (k + 1) = (step (fairSt k) (fairOp k)).1 := by
  have h3 : k % 3 = 0 ∨ k % 3 = 1 ∨ k % 3 = 2 := by omega
  rcases h3 with h | h | h
  · have : fairOp k = .tick 25 := by simp [fairOp, h]
    rw [this]
    have h1 : (k + 1 + 2) / 3 = (k + 2) / 3 + 1 := by omega
    by_cases hk : k ≤ 2
    · have hk2 : k + 1 ≤ 2 := by omega
      simp [step, fairSt, h1, hk, hk2, Nat.mul_add]
    · have hk2 : ¬ (k + 1 ≤ 2) := by omega
      simp [step, fairSt, h1, hk, hk2, Nat.mul_add]
  · have : fairOp k = .sweepAccept := by simp [fairOp, h]
    rw [this]
    have h1 : (k + 1 + 2) / 3 = (k + 2) / 3 := by omega
    by_cases hk : k ≤ 2
    · have hk2 : k + 1 ≤ 2 := by omega
      simp [step, fairSt, h1, hk, hk2, sweepAccept, Table.sweepAccept, Table.getForRx, fairT0]
    · have hk2 : ¬ (k + 1 ≤ 2) := by omega
      simp [step, fairSt, h1, hk, hk2, sweepAccept]
  · have : fairOp k = .sweepOrphan := by simp [fairOp, h]
    rw [this]
    have h1 : (k + 1 + 2) / 3 = (k + 2) / 3 := by omega
    have hk2 : ¬ (k + 1 ≤ 2) := by omega
    by_cases hk : k ≤ 2
    · simp [step, fairSt, h1, hk, hk2, sweepOrphan, Table.sweepOrphan, Table.getForRx, fairT0]
    · simp [step, fairSt, h1, hk, hk2, sweepOrphan]

def fairRun : Run where
  st := fairSt
  op := fairOp
  next := fairNext
  reach0 := by rw [fairSt0]; exact reach_run (Reach.init 0) _

theorem fairRun_fair : SweepFair fairRun 50 50 := by
  constructor
  · intro k
    have h3 : k % 3 = 0 ∨ k % 3 = 1 ∨ k % 3 = 2 := by omega
    rcases h3 with h | h | h
    · refine ⟨k + 1, by omega, (by have e1 : (k + 1) % 3 = (k % 3 + 1) % 3 := by omega
                                   simp [fairRun, fairOp, e1, h]), ?_⟩
      show 25 * ((k + 1 + 2) / 3) ≤ 25 * ((k + 2) / 3) + 50
      omega
    · refine ⟨k, by omega, by simp [fairRun, fairOp, h], by omega⟩
    · refine ⟨k + 2, by omega, (by have e1 : (k + 2) % 3 = (k % 3 + 2) % 3 := by omega
                                   simp [fairRun, fairOp, e1, h]), ?_⟩
      show 25 * ((k + 2 + 2) / 3) ≤ 25 * ((k + 2) / 3) + 50
      omega
  · intro k
    have h3 : k % 3 = 0 ∨ k % 3 = 1 ∨ k % 3 = 2 := by omega
    rcases h3 with h | h | h
    · refine ⟨k + 2, by omega, (by have e1 : (k + 2) % 3 = (k % 3 + 2) % 3 := by omega
                                   simp [fairRun, fairOp, e1, h]), ?_⟩
      show 25 * ((k + 2 + 2) / 3) ≤ 25 * ((k + 2) / 3) + 50
      omega
    · refine ⟨k + 1, by omega, (by have e1 : (k + 1) % 3 = (k % 3 + 1) % 3 := by omega
                                   simp [fairRun, fairOp, e1, h]), ?_⟩
      show 25 * ((k + 1 + 2) / 3) ≤ 25 * ((k + 2) / 3) + 50
      omega
    · refine ⟨k, by omega, by simp [fairRun, fairOp, h], by omega⟩

theorem fairRun_diverges : TimeDiverges fairRun := by
  intro T
  refine ⟨3 * T, ?_⟩
  show T ≤ 25 * ((3 * T + 2) / 3)
  omega

/-- non-vacuity of `unclaimed_discarded_within`: all its hypotheses hold together on a concrete infinite
run — the message of a session that was removed waits in the RX slot, the scheduler repeats
(25 ms pass, accept sweep, orphan sweep) for ever, nobody owns the message -/
example : ∃ j, 0 ≤ j ∧ (fairRun.st (j + 1)).rx = none ∧
    (fairRun.st j).now ≤ max (fairRun.st 0).now (fairX0.arrivedAt + Consts.acceptTimeoutMs) + 50 + 50 :=
  unclaimed_discarded_within fairRun fairRun_fair fairRun_diverges (k := 0) (x := fairX0) rfl
    (fun j _ _ ⟨s, hs, _⟩ => by simp [fairRun, fairSt, fairT0] at hs)

end C10
