import RsMatterVerif.Generated.Consts
/-!
# Model of the PASE responder and the commissioning window (C02)

Transliteration of
* `sc/pase.rs`            `Pase::{open_basic_comm_window, open_comm_window, close_comm_window,
                           check_comm_window_timeout, record_pake_failure}`, `SessionEstTimeout`
                           (the single in-progress marker), `CommWindow::mdns_service`,
* `sc/pase/responder.rs`  `PaseResponder::{handle, handle_inner, update_session_timeout,
                           handle_pbkdfparamrequest, handle_pasepake1, handle_pasepake3}`,
* `sc.rs`                 `reserve_session_or_busy` (no slot and nothing to evict ⇒ `Busy`, not charged),
* `transport/session.rs`  `ReservedSession::{reserve, complete, drop}`, the capacity of the session
                           table, which sessions `get_session_for_eviction` may take,
                           `Session::{rx_timeout_ms, set_peer_session_params}`,
* `transport.rs`          `decode_packet` (a new unsecured session needs a slot),
                           `handle_rx_packet` (`NoSpaceSessions` ⇒ `Busy` + eviction; `Duplicate` ⇒
                           stand-alone ACK, the message never reaches the exchange),
* `transport/mrp.rs`      `RetransEntry::{backoff_ms, retransmission_timeout_ms}`,
* `dm/clusters/adm_comm.rs` `handle_open_commissioning_window` / `handle_open_basic_commissioning_window` (PAKE parameter
                           validation, expiry check, `Busy` as cluster status) on a session that is not a CASE session,
* `lib.rs`                `Matter::mdns_services` (commissionable record iff a window is present).

One responder task exists per exchange (`tasks`); a task that returns is removed. Time is a `Nat`
of milliseconds. **SPAKE2+ is symbolic**: the confirmation value the responder expects is the free
term `Conf pw ctx pA pB` (= `cA = MAC(KcA(w0,w1,pA,pB,TT(ctx)))`): it equals a received value only
if passcode class, transcript, and both shares coincide; `Pt` distinguishes a valid prover share
from the identity / off-curve / unparsable ones `setup_verifier` and the TLV layer refuse.

Abstractions (stated, not hidden): which *individual* session the LRU rule evicts is an input
(`VClass`, the class of the victim the implementation took) - the model decides *whether* a victim
exists and takes the first eligible session of that class; `last_use` is not modelled (a session
used in the very millisecond of the eviction is skipped by the code). Fail-safe arming at Pake3 is
not modelled.

**Idealisations the theorems rest on** (listed as assumptions in `props/C02.json`):
* *window identities never repeat*: `Window.id` stands for `mdns_id`, which the code draws with
  `rand.next_u64()` (`Matter::open_basic_comm_window`, the two cluster handlers) or takes from the
  caller of the `pub` `Pase::open_comm_window` / `open_basic_comm_window`; Pake3 compares this id
  only. The model draws it from the strictly increasing counter `fresh`, i.e. assumes that no two
  windows of a history carry the same id;
* *responder randomness never repeats*: the transcript id `ctx` (it stands for the PBKDF exchange
  incl. the responder's 32 random bytes and session id) and the responder share `pB` (a fresh scalar
  per Pake1) are drawn from the same counter.

The responder task that has completed its session is still alive while it delivers
`SessionEstablishmentSuccess` (`complete_with_status(..).await?` after `session.complete()`); when
that send fails, `handle` sees `Err` and charges a failure although the session exists. The model
removes the task at the Pake3 step and remembers the pending delivery in the ghost list `finishing`
(exchange, latest instant of the `TxTimeout`: `txGiveUpMs`); `Op.dead` on such an exchange up to that
instant is the failing send. The arrival of the acknowledgement is no event of the model: the environment may
fail the final send of a completed handshake (once) at any time within the ladder - a superset of
what the code can do. Import-free apart from the generated constants.
-/
namespace Pase

def estTimeoutMs : Nat := Consts.paseSessionEstTimeoutSecs * 1000
def maxFailures : Nat := Consts.maxPakeFailures
def minWindowSecs : Nat := Consts.minCommWindowTimeoutMins * 60
def maxWindowSecs : Nat := Consts.maxCommWindowTimeoutMins * 60
/-- capacity of the session table (`MAX_SESSIONS`, default features) -/
def maxSessions : Nat := Consts.maxSessions
/-- `SPAKE2P_VERIFIER_SALT_MIN_LEN ..= SPAKE2P_VERIFIER_SALT_LEN` (`Pase::validate_salt_len`) -/
def minSaltLen : Nat := Consts.spake2pSaltMinLen
def maxSaltLen : Nat := Consts.spake2pSaltLen
/-- `SPAKE2P_ITERATION_COUNT`: what a basic window announces -/
def builtinIterations : Nat := Consts.spake2pIterationCount

/-- period of the Interaction Model's timeout checks (`im.rs` `run_timeout_checks`:
`Timer::after_secs(CHECK_INTERVAL_SECS)` then `check_timeouts` ⇒ `Pase::check_comm_window_timeout`) -/
def pollPeriodMs : Nat := Consts.imTimeoutCheckIntervalSecs * 1000

/-- `OpenCommissioningWindow` parameter bounds of the cluster handler (`dm/clusters/adm_comm.rs`) -/
def admMinIterations : Nat := Consts.admMinPbkdfIterations
def admMaxIterations : Nat := Consts.admMaxPbkdfIterations
def admMinSaltLen : Nat := Consts.admMinPakeSaltLen
def admMaxSaltLen : Nat := Consts.admMaxPakeSaltLen
def admVerifierLen : Nat := Consts.admPakeVerifierLen

/-! ## MRP timing (`transport/mrp.rs`, `Session::rx_timeout_ms`) -/

/-- `delay = delay * MRP_BACKOFF_BASE.0 / MRP_BACKOFF_BASE.1`, `n` times -/
def growN : Nat → Nat → Nat
  | 0, d => d
  | n + 1, d => growN n (d * Consts.mrpBackoffBaseNum / Consts.mrpBackoffBaseDen)

/-- `RetransEntry::backoff_ms` -/
def backoffMs (base counter jitter : Nat) : Nat :=
  let d := growN (counter - Consts.mrpBackoffThreshold) (base * Consts.mrpMarginNum / Consts.mrpMarginDen)
  d + (d * jitter * Consts.mrpJitterNum) / (Consts.mrpJitterDiv * Consts.mrpJitterDen)

/-- the loop of `RetransEntry::retransmission_timeout_ms`: `fuel` steps left, attempt `counter` -/
def retransLoop (active idle thresh : Nat) (activeOnly : Bool) : Nat → Nat → Nat → Nat
  | 0, _, timeout => timeout
  | fuel + 1, counter, timeout =>
    let base := if activeOnly || timeout < thresh then active else idle
    retransLoop active idle thresh activeOnly fuel (counter + 1) (timeout + backoffMs base counter Consts.mrpJitterRandMax)

/-- `RetransEntry::retransmission_timeout_ms`: the whole back-off ladder with maximum jitter -/
def retransTimeoutMs (active idle thresh : Nat) (activeOnly : Bool) : Nat :=
  retransLoop active idle thresh activeOnly Consts.mrpMaxTransmissions 0 0

/-- the peer's MRP parameters as stored in the session -/
structure Mrp where
  active : Nat
  idle : Nat
  thresh : Nat
deriving Repr, DecidableEq, Inhabited

/-- `mrp::default_peer_mrp_params` for a device that configures neither SAI nor SII -/
def defaultMrp : Mrp :=
  { active := Consts.mrpBaseRetryMs, idle := Consts.mrpDefaultIdleMs, thresh := Consts.mrpDefaultActiveThresholdMs }

/-- `Session::set_peer_session_params`: absent or zero values are ignored -/
def applyParams (m : Mrp) (sai sii sat : Option Nat) : Mrp :=
  let m := match sai with | some v => if v > 0 then { m with active := v } else m | none => m
  let m := match sii with | some v => if v > 0 then { m with idle := v } else m | none => m
  match sat with | some v => if v > 0 then { m with thresh := v } else m | none => m

/-- the device's own active interval: `dev_det().sai.unwrap_or(MRP_BASE_RETRY_INTERVAL_MS)`, SAI unset -/
def localActiveMs : Nat := Consts.mrpBaseRetryMs

/-- `Session::rx_timeout_ms` (UDP): how long an exchange waits for the peer's next message -/
def rxTimeoutMs (m : Mrp) (localActive : Nat) : Nat :=
  retransTimeoutMs m.active m.idle m.thresh false + Consts.mrpExpectedProcessingMs +
    retransTimeoutMs localActive localActive 0 true

/-- upper bound of the time the responder's own answer can stay unacknowledged (its `send_with` loop
ends, successfully or with `TxTimeout`, within the whole ladder paced by the peer's active interval) -/
def sendLadderMs (m : Mrp) : Nat := retransTimeoutMs m.active m.active 0 true

/-- upper bound of the time after which a reliable send that is never acknowledged has failed with
`TxTimeout` (`RetransEntry::pre_send`: `MRP_MAX_TRANSMISSIONS` transmissions, the next attempt fails;
the wait after each transmission is `delay_ms(counter)` with the counter *after* that transmission,
i.e. one step further up the back-off ladder than `retransmission_timeout_ms` sums): the ladder
0..`MRP_MAX_TRANSMISSIONS` with maximum jitter (6926 ms by default; measured on the real code with
its fixed jitter 100/255: ≈ 6.1 s) -/
def txGiveUpMs (m : Mrp) : Nat := retransLoop m.active m.active 0 true (Consts.mrpMaxTransmissions + 1) 0 0

/-! ## Handshake data -/

/-- the prover's share `pA` as the responder sees it -/
inductive Pt
  | valid (id : Nat)
  | identity
  | offCurve
  /-- not a 65-byte octet string / TLV does not parse -/
  | malformed
deriving Repr, DecidableEq, Inhabited

/-- `cA` of the handshake `(passcode class, transcript, pA, pB)` — a free constructor -/
structure Conf where
  pw : Nat
  ctx : Nat
  pA : Nat
  pB : Nat
deriving Repr, DecidableEq, Inhabited

/-- what arrives in Pake3 -/
inductive CA
  | mac (c : Conf)
  /-- 32 bytes that are no confirmation value of any handshake (bit flips, zeros, …) -/
  | junk (n : Nat)
  /-- wrong length / TLV does not parse -/
  | malformed
deriving Repr, DecidableEq, Inhabited

/-- the PBKDFParamRequest: well-formed (optionally advertising MRP session parameters), or refused -/
inductive Req
  | good
  | malformed
  | passcodeIdNonZero
  /-- well-formed, with `session_parameters` (SAI, SII, SAT) -/
  | params (sai sii sat : Option Nat)
deriving Repr, DecidableEq, Inhabited

structure Window where
  /-- identity of this window instance (`mdns_id`: a random u64 or caller-supplied; here drawn from
  `fresh`, i.e. *assumed never to repeat* - the only thing Pake3 compares) -/
  id : Nat
  /-- passcode class (passcode, salt, iterations) the verifier was derived from -/
  pw : Nat
  expiry : Nat
  failures : Nat
  /-- opened with a caller-supplied verifier (`comm_window_type() == Enhanced`) -/
  enhanced : Bool := false
  /-- what PBKDFParamResponse announces -/
  iterations : Nat := 0
  saltLen : Nat := 0
  discriminator : Nat := 0
deriving Repr, DecidableEq, Inhabited

structure Marker where
  exch : Nat
  deadline : Nat
deriving Repr, DecidableEq, Inhabited

inductive Stage
  | waitPake1 (ctx : Nat)
  /-- `wid` = `comm_window_id`: the window whose verifier answered Pake1 -/
  | waitPake3 (expected : Conf) (wid : Nat)
deriving Repr, DecidableEq, Inhabited

structure Task where
  exch : Nat
  stage : Stage
  /-- instant of the responder's last answer: from then on it waits for the peer -/
  since : Nat := 0
  /-- the peer's MRP parameters on the unsecured session (pace the receive timeout) -/
  mrp : Mrp := defaultMrp
deriving Repr, DecidableEq, Inhabited

/-- an established PASE session; ghost fields record how it came to be -/
structure Sess where
  exch : Nat
  conf : Conf
  /-- ghost: was a window present and unexpired when the session was created? -/
  windowOpenAtCreation : Bool
  /-- ghost: was that window the one whose verifier the proof is for? -/
  sameWindowAtCreation : Bool
deriving Repr, DecidableEq, Inhabited

/-- one entry of the session table -/
inductive Slot
  /-- any other session; `pinned` = it has an active exchange (cannot be evicted) -/
  | filler (pinned : Bool)
  /-- the unsecured session carrying the handshake of exchange `x` -/
  | unsec (x : Nat)
  /-- the slot `ReservedSession::reserve` took for the handshake of exchange `x` -/
  | reserved (x : Nat)
  /-- the completed PASE session of exchange `x` -/
  | pase (x : Nat)
deriving Repr, DecidableEq, Inhabited

/-- class of the session the implementation's LRU rule evicted (environment input) -/
inductive VClass
  | filler
  | unsec
  | pase
deriving Repr, DecidableEq, Inhabited

structure St where
  now : Nat := 0
  window : Option Window := none
  marker : Option Marker := none
  tasks : List Task := []
  /-- ghost: every PASE session ever created, in order -/
  sessions : List Sess := []
  /-- source of fresh transcript ids / responder shares (responder random, `pB`) -/
  fresh : Nat := 0
  /-- the session table -/
  table : List Slot := []
  /-- message counters already received per unsecured session: `(exchange, counter)` -/
  seen : List (Nat × Nat) := []
  /-- ghost: responder tasks that have completed their session and are still delivering
  `SessionEstablishmentSuccess`: `(exchange, latest instant at which that send can fail)` -/
  finishing : List (Nat × Nat) := []
deriving Repr, DecidableEq, Inhabited

inductive Op
  /-- `Matter::open_basic_comm_window` with the verifier of passcode class `pw` -/
  | openWin (pw secs : Nat)
  /-- `Pase::open_comm_window`: caller-supplied verifier of class `pw`, salt length, iteration count, discriminator -/
  | openEnh (pw secs saltLen iterations discriminator : Nat)
  /-- the command `OpenCommissioningWindow` through `AdminCommHandler::handle_open_commissioning_window`
  (on a session that is not a CASE session); `verifierLen` = length of the PAKEPasscodeVerifier field -/
  | cmdOpenEnh (pw secs saltLen iterations discriminator verifierLen : Nat)
  /-- the command `OpenBasicCommissioningWindow` through `AdminCommHandler::handle_open_basic_commissioning_window` -/
  | cmdOpenBasic (pw secs : Nat)
  /-- `close_comm_window` (RevokeCommissioning) -/
  | revoke
  | tick (ms : Nat)
  /-- the periodic `check_comm_window_timeout` -/
  | poll
  /-- PBKDFParamRequest opening exchange `x`; `v` = class of the session the eviction took, if one was needed -/
  | pbkdf (x : Nat) (r : Req) (v : Option VClass)
  | pake1 (x : Nat) (p : Pt)
  | pake3 (x : Nat) (c : CA)
  /-- any other message on exchange `x` (status report, wrong opcode) -/
  | other (x : Nat)
  /-- the exchange dies under the responder for an outside reason (peer closed the session), or a
  send of the responder fails for good (no acknowledgement within the ladder): the task ends with `Err` -/
  | dead (x : Nat)
  /-- the responder's receive timer of exchange `x` fires (`ErrorCode::RxTimeout`) -/
  | rxTimeout (x : Nat)
  /-- `n` other sessions enter the table, each with / without an active exchange -/
  | fill (n : Nat) (pinned : Bool)
  /-- the other sessions leave the table -/
  | unfill
deriving Repr, DecidableEq, Inhabited

inductive Out
  | none
  | ok
  | okN (n : Nat)
  | errBusy
  | errInvalidCommand
  | errConstraint
  /-- cluster status `PAKEParameterError` -/
  | errPakeParam
  /-- cluster status `Busy` -/
  | errClusterBusy
  | pbkdfResp (ctx : Nat)
  | pake2 (pB : Nat)
  | statusSuccess
  | statusInvalidParameter
  | statusBusy
  | statusSessionNotFound
  /-- the transport's own `Busy`: no slot for a new unsecured session -/
  | transportBusy
  /-- duplicate: stand-alone acknowledgement only -/
  | ackOnly
  /-- silently dropped -/
  | dropped
deriving Repr, DecidableEq, Inhabited

/-- `Pase::check_comm_window_timeout` -/
def checkWindowTimeout (s : St) : St :=
  match s.window with
  | some w => if s.now > w.expiry then { s with window := none } else s
  | none => s

/-- `Pase::record_pake_failure` -/
def recordFailure (s : St) : St :=
  let s := { s with marker := none }
  match s.window with
  | some w =>
    let f := w.failures + 1   -- u8 saturating; never reaches 255 (revoked at `maxFailures`)
    if f ≥ maxFailures then { s with window := none }
    else { s with window := some { w with failures := f } }
  | none => s

/-- `ReservedSession::drop` of a reservation that was not completed: the slot is removed -/
def release (tbl : List Slot) (x : Nat) : List Slot := tbl.filter (· != .reserved x)

/-- the task of exchange `x` returns: it is gone, and with it its (uncompleted) reserved slot -/
def removeTask (s : St) (x : Nat) : St :=
  { s with tasks := s.tasks.filter (·.exch != x), table := release s.table x }
def setTask (s : St) (t : Task) : St := { s with tasks := t :: s.tasks.filter (·.exch != t.exch) }
def findTask (s : St) (x : Nat) : Option Task := s.tasks.find? (·.exch == x)

/-- the task of exchange `x` ends with `Ok(false) | Err(_)`: `handle` charges a failure -/
def failTask (s : St) (x : Nat) : St := recordFailure (removeTask s x)

/-- `update_session_timeout`: `none` = go on, `some status` = the task answers `status` and returns `Ok(true)` -/
def updateSessionTimeout (s : St) (x : Nat) (new : Bool) : St × Option Out :=
  let s := match s.marker with
    | some m => if s.now > m.deadline then { s with marker := none } else s
    | none => s
  match s.marker with
  | some m =>
    if m.exch != x then (s, some .statusBusy)
    else ({ s with marker := some { exch := x, deadline := s.now + estTimeoutMs } }, none)
  | none =>
    if new then ({ s with marker := some { exch := x, deadline := s.now + estTimeoutMs } }, none)
    else (s, some .statusSessionNotFound)

def windowOpenNow (s : St) : Bool :=
  match s.window with
  | some w => s.now ≤ w.expiry
  | none => false

/-! ## The session table -/

/-- `get_session_for_eviction` takes only sessions that are not reserved and have no active exchange;
the unsecured session of a live handshake has one, and so has the one of exchange `cur`, whose
responder task is just starting (it has no entry in `tasks` yet) -/
def eligible (s : St) (cur : Option Nat) : Slot → Bool
  | .filler p => !p
  | .unsec x => (findTask s x).isNone && cur != some x
  | .reserved _ => false
  | .pase _ => true

def notFiller : Slot → Bool
  | .filler _ => false
  | _ => true

def classOf : Slot → Option VClass
  | .filler _ => some .filler
  | .unsec _ => some .unsec
  | .reserved _ => none
  | .pase _ => some .pase

/-- the session that is evicted: the first eligible one of the class the implementation took, else
the first eligible one; `none` = every session is reserved or has an active exchange -/
def evictPick (s : St) (cur : Option Nat) (v : Option VClass) : Option Slot :=
  let pref := match v with
    | some c => s.table.find? (fun sl => eligible s cur sl && classOf sl == some c)
    | none => none
  match pref with
  | some sl => some sl
  | none => s.table.find? (eligible s cur)

/-- the session `sl` leaves the table (`Sessions::remove`; entries of one class and exchange are
interchangeable, the first is taken); an unsecured session takes its receive-counter state with it -/
def removeSlot (s : St) (sl : Slot) : St :=
  { s with table := s.table.erase sl,
           seen := match sl with
             | .unsec x => s.seen.filter (·.1 != x)
             | _ => s.seen }

/-- `write_evict_some_session_packet`: evict one session if any may be taken -/
def evictOne (s : St) (v : Option VClass) : St :=
  match evictPick s none v with
  | some sl => removeSlot s sl
  | none => s

/-- `Sessions::add` as used by `decode_packet` / `ReservedSession::reserve_now`: `none` = `NoSpaceSessions` -/
def addSlot (s : St) (sl : Slot) : Option St :=
  if s.table.length < maxSessions then some { s with table := s.table ++ [sl] } else none

/-- `ReservedSession::reserve`: take a slot; when the table is full evict one session and try again -/
def reserve (s : St) (x : Nat) (v : Option VClass) : Option St :=
  match addSlot s (.reserved x) with
  | some s' => some s'
  | none =>
    match evictPick s (some x) v with
    | some sl => addSlot (removeSlot s sl) (.reserved x)
    | none => none

/-- `ReservedSession::complete` + `drop`: the reserved slot becomes the PASE session, in place -/
def complete (tbl : List Slot) (x : Nat) : List Slot :=
  tbl.map (fun sl => if sl == .reserved x then .pase x else sl)

def reqParams (t : Mrp) : Req → Mrp
  | .params sai sii sat => applyParams t sai sii sat
  | _ => t

def reqGood : Req → Bool
  | .good => true
  | .params _ _ _ => true
  | _ => false

/-- the responder task on a fresh exchange `x` whose PBKDFParamRequest was accepted by the transport:
`handle_inner` from `ReservedSession::reserve` up to the first `recv_fetch` -/
def pbkdfNew (s : St) (x : Nat) (r : Req) (v : Option VClass) : St × Out :=
  match reserve s x v with
  | none => (s, .statusBusy)   -- `reserve_session_or_busy`: `Busy` is answered, `Ok(true)` - no proof, nothing is charged
  | some s =>
    let (s, st) := updateSessionTimeout s x true
    match st with
    | some o => ({ s with table := release s.table x }, o)
    | none =>
      let s := checkWindowTimeout s
      match s.window with
      | none => ({ s with marker := none, table := release s.table x }, .dropped)
      | some _ =>
        if reqGood r then
          let ctx := s.fresh
          (setTask { s with fresh := s.fresh + 1 }
            { exch := x, stage := .waitPake1 ctx, since := s.now, mrp := reqParams defaultMrp r }, .pbkdfResp ctx)
        else (recordFailure { s with table := release s.table x }, .none)

/-- `Pase::open_basic_comm_window` (as called by `Matter::open_basic_comm_window`: built-in iteration
count, a fresh 32-byte salt) -/
def openWinCore (s : St) (pw secs : Nat) : St × Out :=
  if s.window.isSome then (s, .errBusy)
  else if secs < minWindowSecs || secs > maxWindowSecs then (s, .errInvalidCommand)
  else ({ s with window := some { id := s.fresh, pw := pw, expiry := s.now + secs * 1000, failures := 0,
                                  enhanced := false, iterations := builtinIterations, saltLen := maxSaltLen },
                 fresh := s.fresh + 1 }, .ok)

/-- `Pase::open_comm_window` -/
def openEnhCore (s : St) (pw secs saltLen iterations discriminator : Nat) : St × Out :=
  if s.window.isSome then (s, .errBusy)
  else if secs < minWindowSecs || secs > maxWindowSecs then (s, .errInvalidCommand)
  else if saltLen < minSaltLen || saltLen > maxSaltLen then (s, .errConstraint)
  else ({ s with window := some { id := s.fresh, pw := pw, expiry := s.now + secs * 1000, failures := 0,
                                  enhanced := true, iterations := iterations, saltLen := saltLen,
                                  discriminator := discriminator },
                 fresh := s.fresh + 1 }, .ok)

/-- the responder of exchange `x` has completed its session and may still be delivering its final status report -/
def finishingNow (s : St) (x : Nat) : Bool := s.finishing.any (fun e => e.1 == x && decide (s.now ≤ e.2))

def step (s : St) : Op → St × Out
  | .openWin pw secs => openWinCore s pw secs
  | .openEnh pw secs saltLen iterations discriminator => openEnhCore s pw secs saltLen iterations discriminator
  | .cmdOpenEnh pw secs saltLen iterations discriminator verifierLen =>
    -- the PAKE parameters are validated up front (`PAKEParameterError`)
    if iterations < admMinIterations || iterations > admMaxIterations then (s, .errPakeParam)
    else if saltLen < admMinSaltLen || saltLen > admMaxSaltLen then (s, .errPakeParam)
    else if verifierLen != admVerifierLen then (s, .errPakeParam)
    else
      -- an expired window is closed first, then `Pase::open_comm_window`; `Busy` becomes the cluster status
      let r := openEnhCore (checkWindowTimeout s) pw secs saltLen iterations discriminator
      (r.1, if r.2 = .errBusy then .errClusterBusy else r.2)
  | .cmdOpenBasic pw secs =>
    let r := openWinCore (checkWindowTimeout s) pw secs
    (r.1, if r.2 = .errBusy then .errClusterBusy else r.2)
  | .revoke => ({ s with window := none }, .ok)
  | .tick ms => ({ s with now := s.now + ms }, .none)
  | .poll => (checkWindowTimeout s, .none)
  | .pbkdf x r v =>
    match findTask s x with
    | some _ =>
      -- a PBKDFParamRequest where Pake1 / Pake3 is expected: handled like any other wrong message
      let (s, st) := updateSessionTimeout s x false
      match st with
      | some o => (removeTask s x, o)
      | none => (failTask s x, .statusInvalidParameter)
    | none =>
      -- `decode_packet`: the new unsecured session needs a slot of its own
      match addSlot s (.unsec x) with
      | none =>
        -- `NoSpaceSessions`: `Busy` is sent, one session is evicted if possible, the message is not processed
        (evictOne s v, .transportBusy)
      | some s => pbkdfNew s x r v
  | .pake1 x p =>
    match findTask s x with
    | none => (s, .none)
    | some t =>
      let (s, st) := updateSessionTimeout s x false
      match st with
      | some o => (removeTask s x, o)
      | none =>
        match t.stage with
        | .waitPake3 _ _ => (failTask s x, .statusInvalidParameter)   -- expect_opcode(PASEPake3) fails
        | .waitPake1 ctx =>
          if p = .malformed then (failTask s x, .none) else
          let s := checkWindowTimeout s
          match s.window with
          | none => (removeTask { s with marker := none } x, .dropped)
          | some w =>
            match p with
            | .valid a =>
              let pB := s.fresh
              let exp : Conf := { pw := w.pw, ctx := ctx, pA := a, pB := pB }
              (setTask { s with fresh := s.fresh + 1 }
                { exch := x, stage := .waitPake3 exp w.id, since := s.now, mrp := t.mrp }, .pake2 pB)
            | _ => (failTask s x, .none)   -- `setup_verifier`: invalid prover share
  | .pake3 x c =>
    match findTask s x with
    | none => (s, .none)
    | some t =>
      let (s, st) := updateSessionTimeout s x false
      match st with
      | some o => (removeTask s x, o)
      | none =>
        match t.stage with
        | .waitPake1 _ => (failTask s x, .statusInvalidParameter)   -- expect_opcode(PASEPake1) fails
        | .waitPake3 exp wid =>
          if c = .malformed then (failTask s x, .none) else
          -- the window is re-checked before the proof is looked at: gone, expired or another one => drop
          let s := checkWindowTimeout s
          let sameWindow := match s.window with
            | some w => w.id == wid
            | none => false
          if !sameWindow then (removeTask { s with marker := none } x, .dropped)
          else if c = .mac exp then
            -- `Spake2P::verify` succeeded: the session is created and completed
            let sess : Sess := { exch := x, conf := exp, windowOpenAtCreation := windowOpenNow s,
                                 sameWindowAtCreation := sameWindow }
            -- (after `session.complete()` the task still has to deliver the status report: `finishing`)
            let s := { s with sessions := s.sessions ++ [sess], table := complete s.table x,
                              finishing := (x, s.now + txGiveUpMs t.mrp) :: s.finishing }
            (removeTask { s with marker := none } x, .statusSuccess)
          else (failTask { s with marker := none } x, .statusInvalidParameter)
  | .other x =>
    match findTask s x with
    | none => (s, .none)
    | some _ =>
      let (s, st) := updateSessionTimeout s x false
      match st with
      | some o => (removeTask s x, o)
      | none => (failTask s x, .none)
  | .dead x =>
    match findTask s x with
    | none =>
      -- `complete_with_status(SessionEstablishmentSuccess).await?` fails after `session.complete()`:
      -- `handle` sees `Err` and charges a failure; the session stays
      if finishingNow s x then (recordFailure { s with finishing := s.finishing.filter (·.1 != x) }, .none)
      else (s, .none)
    | some _ => (failTask s x, .none)
  | .rxTimeout x =>
    match findTask s x with
    | none => (s, .none)
    | some t =>
      -- the timer is armed (for `rx_timeout_ms`) when the responder starts waiting, not before its last answer
      if s.now ≥ t.since + rxTimeoutMs t.mrp localActiveMs then (failTask s x, .none) else (s, .none)
  | .fill n pinned =>
    let k := min n (maxSessions - s.table.length)
    ({ s with table := s.table ++ List.replicate k (.filler pinned) }, .okN k)
  | .unfill =>
    ({ s with table := s.table.filter notFiller }, .ok)

def run (s : St) : List Op → St
  | [] => s
  | o :: os => run (step s o).1 os

/-! ## Message delivery: duplicates never reach the responder -/

/-- the exchange a handshake message belongs to -/
def opExch : Op → Option Nat
  | .pbkdf x _ _ => some x
  | .pake1 x _ => some x
  | .pake3 x _ => some x
  | .other x => some x
  | _ => none

def hasUnsec (s : St) (x : Nat) : Bool := s.table.contains (.unsec x)

def isPbkdf : Op → Bool
  | .pbkdf _ _ _ => true
  | _ => false

/-- a datagram carrying handshake message `op` with message counter `ctr` arrives
(`decode_packet` + `handle_rx_packet`): a counter the unsecured session has already seen is a
`Duplicate` - acknowledged, not processed; without a session only a PBKDFParamRequest is looked at -/
def deliver (s : St) (ctr : Nat) (op : Op) : St × Out :=
  match opExch op with
  | none => step s op
  | some x =>
    if hasUnsec s x then
      if s.seen.contains (x, ctr) then (s, .ackOnly)
      else
        let r := step s op
        ({ r.1 with seen := (x, ctr) :: r.1.seen }, r.2)
    else if isPbkdf op then
      let r := step s op
      (if hasUnsec r.1 x then { r.1 with seen := (x, ctr) :: r.1.seen } else r.1, r.2)
    else (s, .none)

/-- an event of a history: an environment / API operation, or the arrival of a datagram -/
inductive Ev
  | op (o : Op)
  | msg (ctr : Nat) (o : Op)
deriving Repr, DecidableEq, Inhabited

def stepEv (s : St) : Ev → St × Out
  | .op o => step s o
  | .msg c o => deliver s c o

def runEv (s : St) : List Ev → St
  | [] => s
  | e :: es => runEv (stepEv s e).1 es

/-- `Matter::mdns_services`: the commissionable record is published iff a window is present -/
def advertised (s : St) : Bool := s.window.isSome

/-- `CommWindow::mdns_service`: what the record says - `(discriminator, enhanced)` -/
def advertisedAs (s : St) : Option (Nat × Bool) := s.window.map (fun w => (w.discriminator, w.enhanced))

end Pase
