import RsMatterVerif.Model.TwoNode
import RsMatterVerif.Lemmas.Transport
import RsMatterVerif.Lemmas.Dedup
/-!
# Invariant of the two-node model (C09)

`Good a0 b0 s accB accA`: the facts that hold in every state reachable from `init a0 b0` under every
adversary schedule; preserved by every transition (`good_step`), hence by every run (`good_run`).
`accB` / `accA` are ghost lists: the counters the two receive windows have accepted so far.
-/
namespace TwoNode
open Transport Dedup

/-! ## The reliability-layer calls the model makes, in closed form -/

theorem postRecv_noAck (m : Mrp) (c : Nat) (rel : Bool) (now : Nat) :
    m.postRecv c none rel now =
      ({ (if rel then { m with ack := some { ctr := c, acked := false } } else m) with recvAt := some now }, none) := by
  obtain ⟨rt, ak, ra⟩ := m
  unfold Mrp.postRecv
  cases rt <;> cases rel <;> rfl

theorem preSend_unreliable (m : Mrp) (c : Nat) (ha sai : Option Nat) :
    (m.preSend c false ha sai).1 = { m with ack := m.ack.map (fun a => { a with acked := true }), recvAt := none } ∧
    (m.preSend c false ha sai).2.1 = outAckOf m ha ∧ (m.preSend c false ha sai).2.2 = none := by
  refine ⟨?_, preSend_outAck m c false ha sai, ?_⟩ <;> (unfold Mrp.preSend; simp)

theorem preSend_first (m : Mrp) (c : Nat) (ha sai : Option Nat) (h : m.retrans = none) :
    (m.preSend c true ha sai).1 =
      { retrans := some (Retrans.new sai c), ack := m.ack.map (fun a => { a with acked := true }), recvAt := none } ∧
    (m.preSend c true ha sai).2.2 = none := by
  constructor <;> (unfold Mrp.preSend; simp [h])

theorem retrans_new_ctr (sai : Option Nat) (c : Nat) : (Retrans.new sai c).ctr = c ∧ (Retrans.new sai c).count = 0 := by
  unfold Retrans.new
  exact ⟨rfl, rfl⟩

/-- an acknowledgement received while a retransmission is pending -/
theorem postRecv_ack_pending (m : Mrp) (r : Retrans) (bc k : Nat) (hr : m.retrans = some r) :
    (k = r.ctr → (m.postRecv bc (some k) false 0).2 = none ∧ (m.postRecv bc (some k) false 0).1.retrans = none) ∧
    (k ≠ r.ctr → m.postRecv bc (some k) false 0 = (m, some .duplicate)) := by
  have h := postRecv_pending m r bc (some k) false 0 hr
  simp only at h
  refine ⟨fun hk => h.1 (by rw [hk]), fun hk => h.2.1 k rfl hk⟩

/-- an acknowledgement received while nothing is pending -/
theorem postRecv_ack_idle (m : Mrp) (bc k : Nat) (hr : m.retrans = none) :
    (m.postRecv bc (some k) false 0).2 = none ∧ (m.postRecv bc (some k) false 0).1.retrans = none := by
  unfold Mrp.postRecv
  simp [hr]

/-! ## The invariant -/

structure Good (a0 : Nat) (s : Sys) (accB accA : List Nat) : Prop where
  /-- the ghost flag is raised on unsecured sessions only -/
  lateEnc : s.enc = true → s.late = false
  /-- as long as no copy came in later than the window is wide, B's window - of either kind - is
  the set-based specification of C04 over the counters it has accepted -/
  winB : s.late = false → C04.Inv s.bRx accB
  /-- always (restarts included): the newest counter of B's window is one it accepted -/
  maxIn : s.bRx.synced = true → s.bRx.max ∈ accB
  /-- (the sender's own window matters only for the liveness statements, stated for secure sessions) -/
  winA : s.enc = true → C04.Inv s.aRx accA
  /-- B's window has accepted exactly the counters of the messages its application has seen -/
  accApp : accB = s.app.map (a0 + ·)
  aCtr : s.aCtr = a0 + s.next
  netData : ∀ c i, Dg.data c i ∈ s.net → c = a0 + i ∧ i < s.next
  /-- acknowledgements exist only for counters B's window has accepted -/
  netAck : ∀ bc k, Dg.ack bc k ∈ s.net → k ∈ accB ∧ bc < s.bCtr
  owed : ∀ a, s.bMrp.ack = some a → a.ctr ∈ accB
  /-- A has only seen counters B has used -/
  accALt : s.enc = true → ∀ b ∈ accA, b < s.bCtr
  appLt : ∀ i ∈ s.app, i < s.next
  /-- every message before the last started one has reached B's application -/
  done : ∀ j, j + 1 < s.next → j ∈ s.app
  fin : ∀ j, j < s.next → s.cur = some j ∨ ∃ b, (j, b) ∈ s.res
  curSome : ∀ i, s.cur = some i → i + 1 = s.next ∧ ∃ r, s.aMrp.retrans = some r ∧ r.ctr = a0 + i ∧ r.count ≤ Consts.mrpMaxTransmissions
  curNone : s.cur = none → s.aMrp.retrans = none
  /-- in order, at most once: the log (newest first) is strictly decreasing - until a copy comes in
  later than the window of an unsecured session is wide (`late`) -/
  sorted : s.late = false → s.app.Pairwise (· > ·)
  /-- success only if B's stack accepted the message -/
  resOk : ∀ i, (i, true) ∈ s.res → i ∈ s.app

theorem good_init (a0 b0 : Nat) (enc : Bool) (sai : Option Nat) : Good a0 (init a0 b0 enc sai) [] [] := by
  refine
    { lateEnc := fun _ => rfl, winB := fun _ => ?_, maxIn := ?_, winA := fun _ => ?_, accApp := rfl, aCtr := rfl, netData := ?_, netAck := ?_, owed := ?_,
      accALt := ?_, appLt := ?_, done := ?_, fin := ?_, curSome := ?_, curNone := ?_, sorted := ?_, resOk := ?_ }
  · refine ⟨fun _ => rfl, ?_, ?_, ?_⟩ <;> simp [init, RxState.unsynced]
  · intro h; simp [init, RxState.unsynced] at h
  · refine ⟨fun _ => rfl, ?_, ?_, ?_⟩ <;> simp [init, RxState.unsynced]
  · intro c i h; simp [init] at h
  · intro bc k h; simp [init] at h
  · intro a h; simp [init] at h
  · intro _ b h; simp at h
  · intro i h; simp [init] at h
  · intro j h; simp [init] at h
  · intro j h; simp [init] at h
  · intro i h; simp [init] at h
  · intro _; rfl
  · intro _; simp [init]
  · intro i h; simp [init] at h

theorem mem_erase_imp {d e : Dg} {l : List Dg} (h : d ∈ l.erase e) : d ∈ l := List.mem_of_mem_erase h

/-! ## The receive window, both kinds: what a verdict does to the state -/

/-- a rejected counter leaves the window as it was, and lies at or below its newest one -/
theorem plain_rejected (rx : RxState) (c : Nat) (enc : Bool) (h : (postRecvPlain rx c enc).2 = false) :
    (postRecvPlain rx c enc).1 = rx ∧ rx.synced = true ∧ c ≤ rx.max := by
  cases hs : rx.synced with
  | false => rw [C04.plain_unsynced rx c enc hs] at h; cases h
  | true =>
    rcases Nat.lt_trichotomy c rx.max with hlt | heq | hgt
    · by_cases hw : rx.max - c ≤ L
      · rw [C04.plain_win rx c enc hs hlt hw] at h ⊢
        unfold inWindow at h ⊢
        split
        · exact ⟨rfl, rfl, Nat.le_of_lt hlt⟩
        · rename_i hb; simp [hb] at h
      · cases enc
        · have h1 : c ≠ rx.max := by omega
          have h2 : ¬ c > rx.max := by omega
          have : postRecvPlain rx c false = ({ rx with max := c, bitmap := 0 }, true) := by
            simp [postRecvPlain, hs, h1, h2, hw]
          rw [this] at h; cases h
        · rw [C04.plain_old rx c hs hlt hw]
          exact ⟨rfl, rfl, Nat.le_of_lt hlt⟩
    · subst heq
      rw [C04.plain_eq rx enc hs]
      exact ⟨rfl, rfl, Nat.le_refl _⟩
    · rw [C04.plain_fwd rx c enc hs hgt] at h; cases h

/-- an accepted counter: the window is synchronised afterwards and its newest counter is the
accepted one or the old newest one -/
theorem plain_accepted (rx : RxState) (c : Nat) (enc : Bool) (h : (postRecvPlain rx c enc).2 = true) :
    (postRecvPlain rx c enc).1.synced = true ∧
    ((postRecvPlain rx c enc).1.max = c ∨ (rx.synced = true ∧ (postRecvPlain rx c enc).1.max = rx.max)) := by
  cases hs : rx.synced with
  | false => rw [C04.plain_unsynced rx c enc hs]; exact ⟨rfl, Or.inl rfl⟩
  | true =>
    rcases Nat.lt_trichotomy c rx.max with hlt | heq | hgt
    · by_cases hw : rx.max - c ≤ L
      · rw [C04.plain_win rx c enc hs hlt hw] at h ⊢
        unfold inWindow at h ⊢
        split
        · rename_i hb; simp [hb] at h
        · exact ⟨hs, Or.inr ⟨rfl, rfl⟩⟩
      · cases enc
        · have h1 : c ≠ rx.max := by omega
          have h2 : ¬ c > rx.max := by omega
          have : postRecvPlain rx c false = ({ rx with max := c, bitmap := 0 }, true) := by
            simp [postRecvPlain, hs, h1, h2, hw]
          rw [this]
          exact ⟨hs, Or.inl rfl⟩
        · rw [C04.plain_old rx c hs hlt hw] at h; cases h
    · subst heq
      rw [C04.plain_eq rx enc hs] at h; cases h
    · rw [C04.plain_fwd rx c enc hs hgt]
      unfold forward
      split <;> exact ⟨hs, Or.inl rfl⟩

/-- the two window kinds decide alike on every counter that is not more than `L` behind the newest
one (`timelyFor`) -/
theorem window_timely (rx : RxState) (c : Nat) (enc : Bool) (h : enc = true ∨ timelyFor rx c = true) :
    window rx c enc = postRecvPlain rx c true := by
  unfold window
  rcases h with h | h
  · rw [h]
  · unfold timelyFor at h
    unfold postRecvPlain
    by_cases h1 : rx.synced = false
    · simp [h1]
    · have hs : rx.synced = true := by simpa using h1
      have hm : rx.max ≤ c + L := by simpa [hs] using h
      by_cases h2 : c = rx.max
      · simp [h1, h2]
      · by_cases h3 : c > rx.max
        · simp [h1, h2, h3]
        · have : rx.max - c ≤ L := by omega
          simp [h1, h2, h3, this]

/-- the ghost flag stays down: it was down and this copy is timely (or the session is secure) -/
theorem late_false {s : Sys} {c : Nat} (h : (s.late || !(s.enc || timelyFor s.bRx c)) = false) :
    s.late = false ∧ window s.bRx c s.enc = postRecvPlain s.bRx c true := by
  have h1 : s.late = false := by
    cases hl : s.late with
    | false => rfl
    | true => rw [hl] at h; simp at h
  refine ⟨h1, window_timely _ _ _ ?_⟩
  rw [h1] at h
  cases he : s.enc with
  | true => exact Or.inl rfl
  | false =>
    right
    rw [he] at h
    simpa using h

/-- what the window's verdict means under the invariant - on both session kinds, restarts or not:
a rejected data message was accepted before -/
theorem rejected_was_accepted {a0 : Nat} {s : Sys} {accB accA : List Nat} (g : Good a0 s accB accA)
    (c i : Nat) (hc : c = a0 + i) (hi : i < s.next) (hrej : (window s.bRx c s.enc).2 = false) : c ∈ accB := by
  by_cases hlast : i + 1 < s.next
  · rw [g.accApp, hc]
    exact List.mem_map.2 ⟨i, g.done i hlast, rfl⟩
  · -- the last started message: nothing newer exists, so "rejected" means "is the newest accepted"
    obtain ⟨_, hs, hle⟩ := plain_rejected s.bRx c s.enc hrej
    have hmax := g.maxIn hs
    have hmax' := hmax
    rw [g.accApp] at hmax'
    obtain ⟨j, hj, hje⟩ := List.mem_map.1 hmax'
    have hjn := g.appLt j hj
    have : c = s.bRx.max := by omega
    rw [this]
    exact hmax

/-- a newly accepted data message is the last started one, newer than everything in the log -/
theorem accepted_is_newest {a0 : Nat} {s : Sys} {accB accA : List Nat} (g : Good a0 s accB accA)
    (c i : Nat) (hc : c = a0 + i) (hi : i < s.next) (hacc : specAccept accB c = true) :
    i ∉ s.app ∧ ∀ j ∈ s.app, j < i := by
  have hnin : c ∉ accB := by
    intro h
    rw [C04.spec_false_mem accB c h] at hacc
    cases hacc
  have hiapp : i ∉ s.app := by
    intro h
    apply hnin
    rw [g.accApp, hc]
    exact List.mem_map.2 ⟨i, h, rfl⟩
  refine ⟨hiapp, ?_⟩
  intro j hj
  have h1 := g.appLt j hj
  have hlast : ¬ i + 1 < s.next := fun h => hiapp (g.done i h)
  have hne : j ≠ i := fun h => hiapp (h ▸ hj)
  omega

/-! ## Preservation, transition by transition -/

theorem allOk_mem {s : Sys} (h : s.allOk = true) (j : Nat) (b : Bool) (hm : (j, b) ∈ s.res) : b = true := by
  unfold Sys.allOk at h
  have := List.all_eq_true.1 h (j, b) hm
  simpa using this

theorem good_send {a0 : Nat} {s s' : Sys} {accB accA : List Nat} (g : Good a0 s accB accA)
    (h : s.sendStep = some s') : Good a0 s' accB accA := by
  unfold Sys.sendStep at h
  split at h
  · cases h
  · rename_i hguard
    simp only [Bool.or_eq_true, Bool.not_eq_true', not_or, Bool.not_eq_true, Option.isSome_eq_false_iff,
      Option.isNone_iff_eq_none] at hguard
    obtain ⟨⟨hcur, hok⟩, hrt⟩ := hguard
    have hok : s.allOk = true := by simpa using hok
    have hp := preSend_first s.aMrp s.aCtr none s.sai hrt
    simp only [hp.2] at h
    cases h
    refine
      { lateEnc := g.lateEnc, maxIn := g.maxIn, winB := g.winB, winA := g.winA, accApp := g.accApp, aCtr := ?_, netData := ?_,
        netAck := fun bc k hm => g.netAck bc k (by simpa using hm), owed := g.owed, accALt := g.accALt,
        appLt := ?_, done := ?_, fin := ?_,
        curSome := ?_, curNone := ?_, sorted := g.sorted, resOk := g.resOk }
    · show s.aCtr + 1 = a0 + (s.next + 1)
      rw [g.aCtr]; omega
    · intro c i hm
      simp only [List.mem_cons, Dg.data.injEq] at hm
      rcases hm with ⟨rfl, rfl⟩ | hm
      · exact ⟨g.aCtr, Nat.lt_succ_self _⟩
      · have := g.netData c i hm
        exact ⟨this.1, Nat.lt_succ_of_lt this.2⟩
    · intro i hi
      exact Nat.lt_succ_of_lt (g.appLt i hi)
    · intro j hj
      have hj' : j < s.next := by
        show j < s.next
        have : j + 1 < s.next + 1 := hj
        omega
      rcases g.fin j hj' with hc | ⟨b, hb⟩
      · rw [hcur] at hc; cases hc
      · have := allOk_mem hok j b hb
        subst this
        exact g.resOk j hb
    · intro j hj
      have hj' : j < s.next + 1 := hj
      by_cases hjn : j = s.next
      · left; show some s.next = some j; rw [hjn]
      · right
        rcases g.fin j (by omega) with hc | hb
        · rw [hcur] at hc; cases hc
        · exact hb
    · intro i hi
      have hi' : some s.next = some i := hi
      cases hi'
      refine ⟨rfl, Retrans.new s.sai s.aCtr, ?_, ?_, ?_⟩
      · show (s.aMrp.preSend s.aCtr true none s.sai).1.retrans = _
        rw [hp.1]
      · rw [(retrans_new_ctr _ _).1]; exact g.aCtr
      · rw [(retrans_new_ctr _ _).2]; exact Nat.zero_le _
    · intro hc
      have : some s.next = none := hc
      cases this

theorem good_resend {a0 : Nat} {s s' : Sys} {accB accA : List Nat} (g : Good a0 s accB accA) (w : Bool)
    (h : s.resendStep w = some s') : Good a0 s' accB accA := by
  unfold Sys.resendStep at h
  split at h
  · rename_i i r hcur hrt
    obtain ⟨hnext, r', hr', hctr, hcnt⟩ := g.curSome i hcur
    rw [hrt] at hr'
    cases hr'
    by_cases hb : r.count < Consts.mrpMaxTransmissions
    · -- a retransmission within the budget
      have hp := preSend_retrans_ok s.aMrp r none s.sai hrt hb
      simp only [hp] at h
      split at h
      · cases h
      · cases h
        refine
          { lateEnc := g.lateEnc, maxIn := g.maxIn, winB := g.winB, winA := g.winA, accApp := g.accApp, aCtr := g.aCtr, netData := ?_,
            netAck := fun bc k hm => g.netAck bc k (by simpa using hm), owed := g.owed, accALt := g.accALt,
            appLt := g.appLt, done := g.done, fin := g.fin,
            curSome := ?_, curNone := ?_, sorted := g.sorted, resOk := g.resOk }
        · intro c j hm
          simp only [List.mem_cons, Dg.data.injEq] at hm
          rcases hm with ⟨rfl, rfl⟩ | hm
          · have hlt : j < s.next := by omega
            exact ⟨hctr, hlt⟩
          · exact g.netData c j hm
        · intro j hj
          have hj' : s.cur = some j := hj
          rw [hcur] at hj'
          cases hj'
          exact ⟨hnext, { r with count := r.count + 1 }, rfl, hctr, hb⟩
        · intro hc
          have : s.cur = none := hc
          rw [hcur] at this
          cases this
    · -- the budget is used up
      have hp := preSend_retrans_timeout s.aMrp r none s.sai hrt hb
      simp only [hp.1] at h
      split at h
      · cases h
        refine
          { lateEnc := g.lateEnc, maxIn := g.maxIn, winB := g.winB, winA := g.winA, accApp := g.accApp, aCtr := g.aCtr, netData := g.netData,
            netAck := g.netAck, owed := g.owed, accALt := g.accALt, appLt := g.appLt, done := g.done, fin := ?_,
            curSome := ?_, curNone := ?_, sorted := g.sorted, resOk := ?_ }
        · intro j hj
          right
          rcases g.fin j hj with hc | ⟨b, hb'⟩
          · rw [hcur] at hc
            cases hc
            exact ⟨false, List.mem_cons_self⟩
          · exact ⟨b, List.mem_cons_of_mem _ hb'⟩
        · intro j hj
          have : (none : Option Nat) = some j := hj
          cases this
        · intro _
          exact hp.2.1
        · intro j hj
          have hj' : (j, true) ∈ (i, false) :: s.res := hj
          simp only [List.mem_cons, Prod.mk.injEq, Bool.true_eq_false, and_false, false_or] at hj'
          exact g.resOk j hj'
      · cases h
  · cases h

theorem good_net_sub {a0 : Nat} {s : Sys} {accB accA : List Nat} (g : Good a0 s accB accA) (net' : List Dg)
    (hsub : ∀ d, d ∈ net' → d ∈ s.net) : Good a0 { s with net := net' } accB accA :=
  { lateEnc := g.lateEnc, maxIn := g.maxIn, winB := g.winB, winA := g.winA, accApp := g.accApp, aCtr := g.aCtr,
    netData := fun c i hm => g.netData c i (hsub _ hm), netAck := fun bc k hm => g.netAck bc k (hsub _ hm),
    owed := g.owed, accALt := g.accALt, appLt := g.appLt, done := g.done, fin := g.fin, curSome := g.curSome,
    curNone := g.curNone, sorted := g.sorted, resOk := g.resOk }

theorem good_ackB {a0 : Nat} {s s' : Sys} {accB accA : List Nat} (g : Good a0 s accB accA)
    (h : s.ackStep = some s') : Good a0 s' accB accA := by
  unfold Sys.ackStep at h
  split at h
  · cases h
  · have hp := preSend_unreliable s.bMrp s.bCtr none none
    simp only at h
    rw [hp.2.1] at h
    unfold outAckOf Mrp.ackCtr at h
    cases hack : s.bMrp.ack with
    | none => simp [hack] at h
    | some a =>
      simp only [hack, Option.map_some] at h
      cases h
      refine
        { lateEnc := g.lateEnc, maxIn := g.maxIn, winB := g.winB, winA := g.winA, accApp := g.accApp, aCtr := g.aCtr, netData := ?_,
          netAck := ?_, owed := ?_, accALt := ?_, appLt := g.appLt, done := g.done, fin := g.fin,
          curSome := g.curSome, curNone := g.curNone, sorted := g.sorted, resOk := g.resOk }
      · intro c i hm
        simp only [List.mem_cons, reduceCtorEq, false_or] at hm
        exact g.netData c i hm
      · intro bc k hm
        simp only [List.mem_cons, Dg.ack.injEq] at hm
        rcases hm with ⟨rfl, rfl⟩ | hm
        · exact ⟨g.owed a hack, Nat.lt_succ_self _⟩
        · have := g.netAck bc k hm
          exact ⟨this.1, Nat.lt_succ_of_lt this.2⟩
      · intro x hx
        have hx' : (s.bMrp.preSend s.bCtr false none none).1.ack = some x := hx
        rw [hp.1, hack] at hx'
        simp only [Option.map_some, Option.some.injEq] at hx'
        subst hx'
        exact g.owed a hack
      · intro he b hb
        exact Nat.lt_succ_of_lt (g.accALt he b hb)


theorem recvData_rej (s : Sys) (c i : Nat) (hw : (window s.bRx c s.enc).2 = false) :
    s.recvData c i = { s with bRx := (window s.bRx c s.enc).1, bCtr := s.bCtr + 1, net := Dg.ack s.bCtr c :: s.net,
                              late := s.late || !(s.enc || timelyFor s.bRx c) } := by
  unfold Sys.recvData
  simp [hw]

theorem recvData_acc (s : Sys) (c i : Nat) (hw : (window s.bRx c s.enc).2 = true) :
    s.recvData c i = { s with bRx := (window s.bRx c s.enc).1, bMrp := (s.bMrp.postRecv c none true 0).1, app := i :: s.app,
                              late := s.late || !(s.enc || timelyFor s.bRx c) } := by
  unfold Sys.recvData
  simp [hw]

theorem recvAck_rej (s : Sys) (bc k : Nat) (hw : (window s.aRx bc s.enc).2 = false) :
    s.recvAck bc k = { s with aRx := (window s.aRx bc s.enc).1 } := by
  unfold Sys.recvAck
  simp [hw]

theorem recvAck_acc (s : Sys) (bc k : Nat) (hw : (window s.aRx bc s.enc).2 = true) :
    s.recvAck bc k = s.afterAck (window s.aRx bc s.enc).1 (s.aMrp.postRecv bc (some k) false 0) := by
  unfold Sys.recvAck
  simp [hw]

theorem afterAck_err (s : Sys) (rx : RxState) (p : Mrp × Option Err) (e : Err) (h2 : p.2 = some e) :
    s.afterAck rx p = { s with aRx := rx, aMrp := p.1 } := by
  unfold Sys.afterAck
  simp [h2]

theorem afterAck_idle (s : Sys) (rx : RxState) (p : Mrp × Option Err) (h2 : p.2 = none) (hc : s.cur = none) :
    s.afterAck rx p = { s with aRx := rx, aMrp := p.1 } := by
  unfold Sys.afterAck
  simp [h2, hc]

theorem afterAck_done (s : Sys) (rx : RxState) (p : Mrp × Option Err) (i : Nat) (h2 : p.2 = none)
    (hc : s.cur = some i) (hr : p.1.retrans = none) :
    s.afterAck rx p = { s with aRx := rx, aMrp := p.1, cur := none, res := (i, true) :: s.res } := by
  unfold Sys.afterAck
  simp [h2, hc, hr]

/-- B's stack takes a data message that is in flight -/
theorem good_recvData {a0 : Nat} {s : Sys} {accB accA : List Nat} (g : Good a0 s accB accA) (c i : Nat)
    (hc : c = a0 + i) (hi : i < s.next) :
    ∃ accB', Good a0 (s.recvData c i) accB' accA := by
  have hle' : ∀ he : s.enc = true, (s.late || !(s.enc || timelyFor s.bRx c)) = false := by
    intro he; rw [g.lateEnc he, he]; rfl
  cases hw : (window s.bRx c s.enc).2 with
  | false =>
    -- rejected by the window: acknowledged afresh
    have hin : c ∈ accB := rejected_was_accepted g c i hc hi hw
    have hsame : (window s.bRx c s.enc).1 = s.bRx := (plain_rejected s.bRx c s.enc hw).1
    refine ⟨accB, ?_⟩
    rw [recvData_rej s c i hw, hsame]
    refine
      { lateEnc := hle', winB := fun hl => g.winB (late_false hl).1, maxIn := g.maxIn, winA := g.winA,
        accApp := g.accApp, aCtr := g.aCtr,
        netData := fun c' i' hm => g.netData c' i' (by simpa using hm), netAck := ?_, owed := g.owed,
        accALt := fun he b hb => Nat.lt_succ_of_lt (g.accALt he b hb), appLt := g.appLt, done := g.done, fin := g.fin,
        curSome := g.curSome, curNone := g.curNone, sorted := fun hl => g.sorted (late_false hl).1, resOk := g.resOk }
    intro bc k hm
    simp only [List.mem_cons, Dg.ack.injEq] at hm
    rcases hm with ⟨rfl, rfl⟩ | hm
    · exact ⟨hin, Nat.lt_succ_self _⟩
    · have := g.netAck bc k hm
      exact ⟨this.1, Nat.lt_succ_of_lt this.2⟩
  | true =>
    have hacc := plain_accepted s.bRx c s.enc hw
    refine ⟨c :: accB, ?_⟩
    rw [recvData_acc s c i hw]
    -- while the flag is down the window is the set-based specification: the accepted message is new
    have htimely : ∀ hl : (s.late || !(s.enc || timelyFor s.bRx c)) = false,
        C04.Inv (window s.bRx c s.enc).1 (c :: accB) ∧ (i ∉ s.app ∧ ∀ j ∈ s.app, j < i) := by
      intro hl
      obtain ⟨hl0, heq⟩ := late_false hl
      have href := C04.step_refines s.bRx accB c (g.winB hl0)
      rw [heq] at hw
      rw [hw] at href
      simp only [↓reduceIte] at href
      rw [heq]
      exact ⟨href.2, accepted_is_newest g c i hc hi href.1.symm⟩
    refine
      { lateEnc := hle', winB := fun hl => (htimely hl).1, maxIn := ?_, winA := g.winA, accApp := ?_, aCtr := g.aCtr,
        netData := g.netData,
        netAck := fun bc k hm => ⟨List.mem_cons_of_mem _ (g.netAck bc k hm).1, (g.netAck bc k hm).2⟩, owed := ?_,
        accALt := g.accALt, appLt := ?_, done := ?_, fin := g.fin,
        curSome := g.curSome, curNone := g.curNone, sorted := ?_, resOk := ?_ }
    · intro _
      show (window s.bRx c s.enc).1.max ∈ c :: accB
      rcases hacc.2 with h | ⟨hs, h⟩
      · unfold window; rw [h]; exact List.mem_cons_self
      · unfold window; rw [h]; exact List.mem_cons_of_mem _ (g.maxIn hs)
    · show c :: accB = (i :: s.app).map (a0 + ·)
      rw [List.map_cons, ← g.accApp, hc]
    · intro a ha
      have ha' : (s.bMrp.postRecv c none true 0).1.ack = some a := ha
      rw [postRecv_noAck] at ha'
      simp only [↓reduceIte, Option.some.injEq] at ha'
      subst ha'
      exact List.mem_cons_self
    · intro j hj
      have hj' : j ∈ i :: s.app := hj
      rcases List.mem_cons.1 hj' with rfl | h
      · exact hi
      · exact g.appLt j h
    · intro j hj
      exact List.mem_cons_of_mem _ (g.done j hj)
    · intro hl
      show (i :: s.app).Pairwise (· > ·)
      exact List.pairwise_cons.2 ⟨fun j hj => (htimely hl).2.2 j hj, g.sorted (late_false hl).1⟩
    · intro j hj
      exact List.mem_cons_of_mem _ (g.resOk j hj)

/-- the part of `good_recvAck` that does not depend on what A's window decided: the effect of
`ReliableMessage::post_recv` with an acknowledgement of an accepted counter -/
theorem good_afterAck {a0 : Nat} {s : Sys} {accB accA accA' : List Nat} (g : Good a0 s accB accA)
    (rx : RxState) (bc k : Nat) (hk : k ∈ accB)
    (hwin : s.enc = true → C04.Inv rx accA') (hlt : s.enc = true → ∀ b ∈ accA', b < s.bCtr) :
    Good a0 (s.afterAck rx (s.aMrp.postRecv bc (some k) false 0)) accB accA' := by
  cases hcur : s.cur with
  | none =>
    have hrt := g.curNone hcur
    have hp := postRecv_ack_idle s.aMrp bc k hrt
    rw [afterAck_idle s _ _ hp.1 hcur]
    exact
      { lateEnc := g.lateEnc, maxIn := g.maxIn, winB := g.winB, winA := hwin, accApp := g.accApp, aCtr := g.aCtr, netData := g.netData,
        netAck := g.netAck, owed := g.owed, accALt := hlt, appLt := g.appLt, done := g.done, fin := g.fin,
        curSome := fun i hi => (by
          have : s.cur = some i := hi
          rw [hcur] at this; cases this),
        curNone := fun _ => hp.2, sorted := g.sorted, resOk := g.resOk }
  | some i =>
    obtain ⟨hnext, r, hr, hctr, hcnt⟩ := g.curSome i hcur
    have hp := postRecv_ack_pending s.aMrp r bc k hr
    by_cases hkr : k = r.ctr
    · -- the matching acknowledgement: the call succeeds
      have h1 := hp.1 hkr
      rw [afterAck_done s _ _ i h1.1 hcur h1.2]
      have hiapp : i ∈ s.app := by
        rw [g.accApp, hkr, hctr] at hk
        obtain ⟨j, hj, hje⟩ := List.mem_map.1 hk
        have : j = i := by omega
        exact this ▸ hj
      refine
        { lateEnc := g.lateEnc, maxIn := g.maxIn, winB := g.winB, winA := hwin, accApp := g.accApp, aCtr := g.aCtr, netData := g.netData,
          netAck := g.netAck, owed := g.owed, accALt := hlt, appLt := g.appLt, done := g.done, fin := ?_,
          curSome := ?_, curNone := fun _ => h1.2, sorted := g.sorted, resOk := ?_ }
      · intro j hj
        right
        rcases g.fin j hj with hc | ⟨b, hb⟩
        · rw [hcur] at hc
          cases hc
          exact ⟨true, List.mem_cons_self⟩
        · exact ⟨b, List.mem_cons_of_mem _ hb⟩
      · intro j hj
        have : (none : Option Nat) = some j := hj
        cases this
      · intro j hj
        have hj' : (j, true) ∈ (i, true) :: s.res := hj
        rcases List.mem_cons.1 hj' with h | h
        · cases h; exact hiapp
        · exact g.resOk j h
    · -- an acknowledgement of something else: nothing changes
      have h2 := hp.2 hkr
      rw [afterAck_err s _ _ .duplicate (by rw [h2])]
      rw [h2]
      exact
        { lateEnc := g.lateEnc, maxIn := g.maxIn, winB := g.winB, winA := hwin, accApp := g.accApp, aCtr := g.aCtr, netData := g.netData,
          netAck := g.netAck, owed := g.owed, accALt := hlt, appLt := g.appLt, done := g.done, fin := g.fin,
          curSome := g.curSome, curNone := g.curNone, sorted := g.sorted, resOk := g.resOk }

/-- A's stack takes an acknowledgement that is in flight -/
theorem good_recvAck {a0 : Nat} {s : Sys} {accB accA : List Nat} (g : Good a0 s accB accA) (bc k : Nat)
    (hk : k ∈ accB) (hbc : bc < s.bCtr) :
    ∃ accA', Good a0 (s.recvAck bc k) accB accA' := by
  cases he : s.enc with
  | false =>
    -- unsecured: nothing is claimed about the sender's own window
    have hno : ∀ (P : Prop), s.enc = true → P := fun P h => by rw [he] at h; cases h
    cases hw : (window s.aRx bc s.enc).2 with
    | false =>
      refine ⟨accA, ?_⟩
      rw [recvAck_rej s bc k hw]
      exact
        { lateEnc := g.lateEnc, maxIn := g.maxIn, winB := g.winB, winA := fun h => hno _ h, accApp := g.accApp, aCtr := g.aCtr,
          netData := g.netData, netAck := g.netAck, owed := g.owed, accALt := fun h => hno _ h, appLt := g.appLt,
          done := g.done, fin := g.fin, curSome := g.curSome, curNone := g.curNone, sorted := g.sorted,
          resOk := g.resOk }
    | true =>
      refine ⟨accA, ?_⟩
      rw [recvAck_acc s bc k hw]
      exact good_afterAck g _ bc k hk (fun h => hno _ h) (fun h => hno _ h)
  | true =>
    have hwinA := g.winA he
    have href := C04.step_refines s.aRx accA bc hwinA
    have heq : window s.aRx bc s.enc = postRecvPlain s.aRx bc true := by unfold window; rw [he]
    cases hw : (postRecvPlain s.aRx bc true).2 with
    | false =>
      rw [hw] at href
      simp only [Bool.false_eq_true, ↓reduceIte] at href
      refine ⟨accA, ?_⟩
      rw [recvAck_rej s bc k (by rw [heq]; exact hw), heq]
      exact
        { lateEnc := g.lateEnc, maxIn := g.maxIn, winB := g.winB, winA := fun _ => href.2, accApp := g.accApp, aCtr := g.aCtr,
          netData := g.netData, netAck := g.netAck, owed := g.owed, accALt := g.accALt, appLt := g.appLt,
          done := g.done, fin := g.fin, curSome := g.curSome, curNone := g.curNone, sorted := g.sorted,
          resOk := g.resOk }
    | true =>
      rw [hw] at href
      simp only [↓reduceIte] at href
      have haccALt : ∀ b ∈ bc :: accA, b < s.bCtr := by
        intro b hb
        rcases List.mem_cons.1 hb with rfl | h
        · exact hbc
        · exact g.accALt he b h
      refine ⟨bc :: accA, ?_⟩
      rw [recvAck_acc s bc k (by rw [heq]; exact hw), heq]
      exact good_afterAck g _ bc k hk (fun _ => href.2) (fun _ => haccALt)

/-- **Every transition preserves the invariant.** -/
theorem good_step {a0 : Nat} {s s' : Sys} {accB accA : List Nat} (g : Good a0 s accB accA) (e : Ev)
    (h : step s e = some s') : ∃ accB' accA', Good a0 s' accB' accA' := by
  cases e with
  | send => exact ⟨accB, accA, good_send g h⟩
  | retx => exact ⟨accB, accA, good_resend g false h⟩
  | giveup => exact ⟨accB, accA, good_resend g true h⟩
  | ackB => exact ⟨accB, accA, good_ackB g h⟩
  | drop d =>
    simp only [step] at h
    split at h
    · cases h
      exact ⟨accB, accA, good_net_sub g _ (fun _ hm => List.mem_of_mem_erase hm)⟩
    · cases h
  | dup d =>
    simp only [step] at h
    split at h
    · rename_i hd
      cases h
      refine ⟨accB, accA, good_net_sub g _ ?_⟩
      intro x hx
      rcases List.mem_cons.1 hx with rfl | hx
      · simpa using hd
      · exact hx
    · cases h
  | deliver d =>
    simp only [step] at h
    split at h
    · rename_i hd
      have hd' : d ∈ s.net := by simpa using hd
      have g0 := good_net_sub g (s.net.erase d) (fun _ hm => List.mem_of_mem_erase hm)
      cases d with
      | data c i =>
        simp only [Option.some.injEq] at h
        subst h
        have hnd := g.netData c i hd'
        obtain ⟨accB', g'⟩ := good_recvData g0 c i hnd.1 hnd.2
        exact ⟨accB', accA, g'⟩
      | ack bc k =>
        simp only [Option.some.injEq] at h
        subst h
        have hna := g.netAck bc k hd'
        obtain ⟨accA', g'⟩ := good_recvAck g0 bc k hna.1 hna.2
        exact ⟨accB, accA', g'⟩
    · cases h

/-- **Every run preserves the invariant** (induction over the adversary's schedule). -/
theorem good_run {a0 : Nat} (evs : List Ev) : ∀ {s s' : Sys} {accB accA : List Nat}, Good a0 s accB accA →
    run s evs = some s' → ∃ accB' accA', Good a0 s' accB' accA' := by
  induction evs with
  | nil =>
    intro s s' accB accA g h
    simp only [run, Option.some.injEq] at h
    subst h
    exact ⟨accB, accA, g⟩
  | cons e es ih =>
    intro s s' accB accA g h
    simp only [run] at h
    cases hs : step s e with
    | none => rw [hs] at h; cases h
    | some s1 =>
      rw [hs] at h
      obtain ⟨b1, a1, g1⟩ := good_step g e hs
      exact ih g1 h

/-! ## The session kind never changes -/

theorem recvData_enc (s : Sys) (c i : Nat) : (s.recvData c i).enc = s.enc := by
  unfold Sys.recvData
  simp only
  split <;> rfl

theorem afterAck_enc (s : Sys) (rx : RxState) (p : Mrp × Option Err) : (s.afterAck rx p).enc = s.enc := by
  unfold Sys.afterAck
  repeat' split
  all_goals rfl

theorem recvAck_enc (s : Sys) (bc k : Nat) : (s.recvAck bc k).enc = s.enc := by
  unfold Sys.recvAck
  simp only
  split
  · rfl
  · exact afterAck_enc _ _ _

theorem step_enc {s s' : Sys} {e : Ev} (h : step s e = some s') : s'.enc = s.enc := by
  cases e with
  | send =>
    simp only [step, Sys.sendStep] at h
    repeat' (split at h)
    all_goals first | (cases h; done) | (cases h; rfl)
  | retx =>
    simp only [step, Sys.resendStep] at h
    repeat' (split at h)
    all_goals first | (cases h; done) | (cases h; rfl)
  | giveup =>
    simp only [step, Sys.resendStep] at h
    repeat' (split at h)
    all_goals first | (cases h; done) | (cases h; rfl)
  | ackB =>
    simp only [step, Sys.ackStep] at h
    repeat' (split at h)
    all_goals first | (cases h; done) | (cases h; rfl)
  | drop d =>
    simp only [step] at h
    split at h
    · cases h; rfl
    · cases h
  | dup d =>
    simp only [step] at h
    split at h
    · cases h; rfl
    · cases h
  | deliver d =>
    simp only [step] at h
    split at h
    · cases d with
      | data c i => simp only [Option.some.injEq] at h; subst h; exact recvData_enc _ _ _
      | ack bc k => simp only [Option.some.injEq] at h; subst h; exact recvAck_enc _ _ _
    · cases h

theorem run_enc (evs : List Ev) : ∀ {s s' : Sys}, run s evs = some s' → s'.enc = s.enc := by
  induction evs with
  | nil => intro s s' h; simp only [run, Option.some.injEq] at h; rw [h]
  | cons e es ih =>
    intro s s' h
    simp only [run] at h
    cases hs : step s e with
    | none => rw [hs] at h; cases h
    | some s1 =>
      rw [hs] at h
      rw [ih h, step_enc hs]

/-! ## The trace monitor only takes transitions of the model -/

theorem run_append (a : List Ev) : ∀ (s : Sys) (b : List Ev) (s1 : Sys), run s a = some s1 → run s (a ++ b) = run s1 b := by
  induction a with
  | nil => intro s b s1 h; simp only [run, Option.some.injEq] at h; subst h; rfl
  | cons e es ih =>
    intro s b s1 h
    simp only [run, List.cons_append] at h ⊢
    cases hs : step s e with
    | none => rw [hs] at h; cases h
    | some s2 =>
      rw [hs] at h
      simp only at h ⊢
      exact ih s2 b s1 h

theorem run_one {s s' : Sys} {e : Ev} (h : step s e = some s') : run s [e] = some s' := by
  simp only [run, h]

theorem applyFate_run {s s' : Sys} {d : Dg} {f : Fate} (h : applyFate s d f = some s') :
    ∃ evs, run s evs = some s' := by
  cases f with
  | pass => exact ⟨[], by simpa [applyFate, run] using h⟩
  | lost => exact ⟨[.drop d], run_one h⟩
  | twice => exact ⟨[.dup d], run_one h⟩

theorem step_then_fate {s s1 s2 : Sys} {e : Ev} {d : Dg} {f : Fate} (h1 : step s e = some s1)
    (h2 : applyFate s1 d f = some s2) : ∃ evs, run s evs = some s2 := by
  obtain ⟨evs, h⟩ := applyFate_run h2
  exact ⟨[e] ++ evs, by rw [run_append [e] s evs s1 (run_one h1)]; exact h⟩

/-- one observed event accepted by the monitor = a (possibly empty) piece of a schedule of the model -/
theorem obs_run (m m' : Mon) (o : Obs) (h : m.obs o = .ok m') : ∃ evs, run m.s evs = some m'.s := by
  unfold Mon.obs at h
  cases o <;> simp only at h <;> repeat' (split at h)
  all_goals first
    | (cases h; done)
    | (cases h; exact ⟨[], rfl⟩)
    | (cases h; exact ⟨_, run_one ‹step _ _ = some _›⟩)
    | (cases h; exact applyFate_run ‹applyFate _ _ _ = some _›)
    | (cases h; exact step_then_fate ‹step _ _ = some _› ‹applyFate _ _ _ = some _›)

theorem runObs_run (os : List Obs) : ∀ (m m' : Mon), m.runObs os = .ok m' → ∃ evs, run m.s evs = some m'.s := by
  induction os with
  | nil =>
    intro m m' h
    simp only [Mon.runObs, Except.ok.injEq] at h
    subst h
    exact ⟨[], rfl⟩
  | cons o rest ih =>
    intro m m' h
    simp only [Mon.runObs] at h
    cases ho : m.obs o with
    | error e => rw [ho] at h; cases h
    | ok m1 =>
      rw [ho] at h
      obtain ⟨e1, h1⟩ := obs_run m m1 o ho
      obtain ⟨e2, h2⟩ := ih m1 m' h
      exact ⟨e1 ++ e2, by rw [run_append e1 m.s e2 m1.s h1]; exact h2⟩

/-- **Soundness of the monitor**: an observed trace it accepts is the trace of a schedule of the model,
ending in the state it reports. -/
theorem acceptsTrace_run (s0 s : Sys) (os : List Obs) (h : acceptsTrace s0 os = .ok s) :
    ∃ evs, run s0 evs = some s := by
  unfold acceptsTrace at h
  cases hr : ({ s := s0 } : Mon).runObs os with
  | error e => rw [hr] at h; cases h
  | ok m =>
    rw [hr] at h
    simp only at h
    repeat' (split at h)
    all_goals first
      | (cases h; done)
      | (cases h; exact runObs_run os _ m hr)

end TwoNode
