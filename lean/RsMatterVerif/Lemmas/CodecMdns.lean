import RsMatterVerif.Model.Codec.Mdns
/-!
# Lemmas about the mDNS wire-format model (`Model/Codec/Mdns.lean`)

1. the cursor primitives (`take`, `advance`, `subParser`) under the parser invariant `pos ≤ len ≤ |octets|`;
2. `ParsedName::parse`: the fuel handed out by `parseName` is never exhausted (termination of pointer
   following), no panic, and the flat (compression-free) encoding parses back to its labels;
3. refusal clauses of the name parser.
-/
namespace Codec.Mdns

/-- invariant of an `octseq::Parser` over the octets `d` -/
def P.Inv (d : List Nat) (p : P) : Prop := p.pos ≤ p.len ∧ p.len ≤ d.length

/-- "neither a panic nor an exhausted step budget" -/
def Fine {α : Type} (r : R α) : Prop := r ≠ .error .panic ∧ r ≠ .error .fuel

theorem Fine.ok {α : Type} (a : α) : Fine (.ok a : R α) := ⟨by simp, by simp⟩
theorem Fine.err {α : Type} {e : PErr} (h1 : e ≠ .panic) (h2 : e ≠ .fuel) : Fine (.error e : R α) :=
  ⟨by simpa using h1, by simpa using h2⟩

/-! ## 1. cursor primitives -/

theorem be_one (b : Nat) : be [b] = b := by simp [be]
theorem be_two (a b : Nat) : be [a, b] = a * 256 + b := by simp [be]
theorem be_four (a b c e : Nat) : be [a, b, c, e] = ((a * 256 + b) * 256 + c) * 256 + e := by simp [be]

theorem be_u16be (x : Nat) (h : x < 65536) : be (u16be x) = x := by
  simp only [u16be, be_two]; omega
theorem be_u32be (x : Nat) (h : x < 4294967296) : be (u32be x) = x := by
  simp only [u32be, be_four]; omega

/-- what `take` answers, by cases; under the invariant it never panics -/
theorem take_spec (d : List Nat) (p : P) (n : Nat) (hi : p.Inv d) :
    (p.len - p.pos < n ∧ take d p n = .error .shortInput) ∨
    (n ≤ p.len - p.pos ∧ take d p n = .ok ((d.drop p.pos).take n, ⟨p.pos + n, p.len⟩)) := by
  obtain ⟨h1, h2⟩ := hi
  unfold take
  rw [if_neg (by omega)]
  by_cases hn : p.len - p.pos < n
  · left; exact ⟨hn, by rw [if_pos hn]⟩
  · right; refine ⟨by omega, ?_⟩
    rw [if_neg hn, if_pos (by omega)]

/-- `take` answers `ok` only with the cursor advanced by `n` inside the limit -/
theorem take_ok_inv (d : List Nat) (p : P) (n : Nat) (a : List Nat) (p' : P) (h : take d p n = .ok (a, p')) :
    p'.pos = p.pos + n ∧ p'.len = p.len ∧ p'.pos ≤ p'.len ∧ a = (d.drop p.pos).take n ∧ p.pos + n ≤ d.length := by
  unfold take at h
  split at h
  · cases h
  · split at h
    · cases h
    · split at h
      · injection h with h; injection h with h1 h2; subst h1 h2
        refine ⟨rfl, rfl, ?_, rfl, by assumption⟩
        show p.pos + n ≤ p.len
        omega
      · cases h

theorem take_ne_fuel (d : List Nat) (p : P) (n : Nat) : take d p n ≠ .error .fuel := by
  unfold take; split; · simp
  split; · simp
  split <;> simp

/-- reading the octets `A` that are known to sit at the cursor -/
theorem take_at (d : List Nat) (pos len : Nat) (A B : List Nat) (h : d.drop pos = A ++ B)
    (hfit : pos + A.length ≤ len) (hd : len ≤ d.length) :
    take d ⟨pos, len⟩ A.length = .ok (A, ⟨pos + A.length, len⟩) ∧ d.drop (pos + A.length) = B := by
  constructor
  · unfold take
    simp only
    rw [if_neg (by omega), if_neg (by omega), if_pos (by omega), h, List.take_left' rfl]
  · rw [← List.drop_drop, h, List.drop_left' rfl]

theorem parseU8_at (d : List Nat) (pos len b : Nat) (B : List Nat) (h : d.drop pos = b :: B)
    (hfit : pos + 1 ≤ len) (hd : len ≤ d.length) :
    parseU8 d ⟨pos, len⟩ = .ok (b, ⟨pos + 1, len⟩) ∧ d.drop (pos + 1) = B := by
  have := take_at d pos len [b] B h hfit hd
  refine ⟨?_, this.2⟩
  simp only [parseU8, bind, Except.bind]
  rw [show (1 : Nat) = [b].length from rfl, this.1]
  simp [be_one, pure, Except.pure]

theorem parseU16_at (d : List Nat) (pos len x : Nat) (B : List Nat) (hx : x < 65536) (h : d.drop pos = u16be x ++ B)
    (hfit : pos + 2 ≤ len) (hd : len ≤ d.length) :
    parseU16 d ⟨pos, len⟩ = .ok (x, ⟨pos + 2, len⟩) ∧ d.drop (pos + 2) = B := by
  have := take_at d pos len (u16be x) B h hfit hd
  refine ⟨?_, this.2⟩
  simp only [parseU16, bind, Except.bind]
  rw [show (2 : Nat) = (u16be x).length from rfl, this.1]
  simp only [pure, Except.pure, be_u16be x hx]

theorem parseU32_at (d : List Nat) (pos len x : Nat) (B : List Nat) (hx : x < 4294967296) (h : d.drop pos = u32be x ++ B)
    (hfit : pos + 4 ≤ len) (hd : len ≤ d.length) :
    parseU32 d ⟨pos, len⟩ = .ok (x, ⟨pos + 4, len⟩) ∧ d.drop (pos + 4) = B := by
  have := take_at d pos len (u32be x) B h hfit hd
  refine ⟨?_, this.2⟩
  simp only [parseU32, bind, Except.bind]
  rw [show (4 : Nat) = (u32be x).length from rfl, this.1]
  simp only [pure, Except.pure, be_u32be x hx]

/-- result discipline of a parser step: a value with a parser that still satisfies the invariant under the
same limit `L`, or a proper error (never a panic, never an exhausted budget) -/
def GoodR {α : Type} (d : List Nat) (L : Nat) (r : R (α × P)) : Prop :=
  match r with
  | .ok (_, p') => p'.Inv d ∧ p'.len = L
  | .error e => e ≠ .panic ∧ e ≠ .fuel

/-- the same for steps that answer only a parser -/
def GoodP (d : List Nat) (L : Nat) (r : R P) : Prop :=
  match r with
  | .ok p' => p'.Inv d ∧ p'.len = L
  | .error e => e ≠ .panic ∧ e ≠ .fuel

theorem GoodR.fine {α : Type} {d : List Nat} {L : Nat} {r : R (α × P)} (h : GoodR d L r) : Fine r := by
  unfold GoodR at h
  split at h
  · exact Fine.ok _
  · exact Fine.err h.1 h.2

theorem GoodP.fine {d : List Nat} {L : Nat} {r : R P} (h : GoodP d L r) : Fine r := by
  unfold GoodP at h
  split at h
  · exact Fine.ok _
  · exact Fine.err h.1 h.2

theorem GoodR.bind {α β : Type} {d : List Nat} {L : Nat} {x : R (α × P)} {f : α × P → R (β × P)}
    (hx : GoodR d L x) (hf : ∀ a p', p'.Inv d → p'.len = L → GoodR d L (f (a, p'))) : GoodR d L (x >>= f) := by
  cases x with
  | error e => exact hx
  | ok v => obtain ⟨a, p'⟩ := v; exact hf a p' hx.1 hx.2

theorem GoodR.bindP {α β : Type} {d : List Nat} {L : Nat} {x : R (α × P)} {f : α × P → R P}
    (hx : GoodR d L x) (hf : ∀ a p', p'.Inv d → p'.len = L → GoodP d L (f (a, p'))) : GoodP d L (x >>= f) := by
  cases x with
  | error e => exact hx
  | ok v => obtain ⟨a, p'⟩ := v; exact hf a p' hx.1 hx.2

theorem GoodP.bind {β : Type} {d : List Nat} {L : Nat} {x : R P} {f : P → R (β × P)}
    (hx : GoodP d L x) (hf : ∀ p', p'.Inv d → p'.len = L → GoodR d L (f p')) : GoodR d L (x >>= f) := by
  cases x with
  | error e => exact hx
  | ok v => exact hf v hx.1 hx.2

theorem GoodP.bindP {d : List Nat} {L : Nat} {x : R P} {f : P → R P}
    (hx : GoodP d L x) (hf : ∀ p', p'.Inv d → p'.len = L → GoodP d L (f p')) : GoodP d L (x >>= f) := by
  cases x with
  | error e => exact hx
  | ok v => exact hf v hx.1 hx.2

theorem take_good (d : List Nat) (p : P) (n : Nat) (hi : p.Inv d) : GoodR d p.len (take d p n) := by
  have ⟨h1, h2⟩ := hi
  rcases take_spec d p n hi with ⟨_, h⟩ | ⟨hn, h⟩
  · rw [h]; exact ⟨by simp, by simp⟩
  · rw [h]; exact ⟨⟨by show p.pos + n ≤ p.len; omega, h2⟩, rfl⟩

theorem parseU8_good (d : List Nat) (p : P) (hi : p.Inv d) : GoodR d p.len (parseU8 d p) :=
  GoodR.bind (take_good d p 1 hi) (fun _ _ h1 h2 => ⟨h1, h2⟩)
theorem parseU16_good (d : List Nat) (p : P) (hi : p.Inv d) : GoodR d p.len (parseU16 d p) :=
  GoodR.bind (take_good d p 2 hi) (fun _ _ h1 h2 => ⟨h1, h2⟩)
theorem parseU32_good (d : List Nat) (p : P) (hi : p.Inv d) : GoodR d p.len (parseU32 d p) :=
  GoodR.bind (take_good d p 4 hi) (fun _ _ h1 h2 => ⟨h1, h2⟩)

theorem advance_good (d : List Nat) (p : P) (n : Nat) (hi : p.Inv d) : GoodP d p.len (advance p n) := by
  obtain ⟨h1, h2⟩ := hi
  unfold advance
  rw [if_neg (by omega)]
  split
  · exact ⟨by simp, by simp⟩
  · exact ⟨⟨by show p.pos + n ≤ p.len; omega, h2⟩, rfl⟩

/-- the sub-parser over the next `n` octets: the invariant holds with the new limit `pos + n` -/
theorem subParser_good (d : List Nat) (p : P) (n : Nat) (hi : p.Inv d) :
    match subParser p n with
    | .ok sp => sp.Inv d ∧ sp.pos = p.pos ∧ sp.len = p.pos + n ∧ sp.len ≤ p.len
    | .error e => e ≠ .panic ∧ e ≠ .fuel := by
  obtain ⟨h1, h2⟩ := hi
  unfold subParser
  rw [if_neg (by omega)]
  by_cases hn : p.len - p.pos < n
  · rw [if_pos hn]; exact ⟨by simp, by simp⟩
  · rw [if_neg hn]
    exact ⟨⟨by show p.pos ≤ p.pos + n; omega, by show p.pos + n ≤ d.length; omega⟩, rfl, rfl, by show p.pos + n ≤ p.len; omega⟩

theorem parseLabelType_good (d : List Nat) (p : P) (hi : p.Inv d) : GoodR d p.len (parseLabelType d p) := by
  unfold parseLabelType
  refine GoodR.bind (parseU8_good d p hi) ?_
  intro t p1 h1 h2
  dsimp only
  split
  · exact ⟨h1, h2⟩
  · split
    · refine GoodR.bind (h2 ▸ parseU8_good d p1 h1) ?_
      intro lo p2 h3 h4
      exact ⟨h3, h4⟩
    · exact ⟨by simp, by simp⟩

theorem parseU8_ok_inv (d : List Nat) (p : P) (b : Nat) (p' : P) (h : parseU8 d p = .ok (b, p')) :
    p'.pos = p.pos + 1 ∧ p'.len = p.len ∧ p'.pos ≤ p'.len := by
  unfold parseU8 at h
  cases ht : take d p 1 with
  | error e => rw [ht] at h; cases h
  | ok v =>
    obtain ⟨a, q⟩ := v
    rw [ht] at h
    have := take_ok_inv d p 1 a q ht
    injection h with h; injection h with h1 h2; subst h2
    exact ⟨this.1, this.2.1, this.2.2.1⟩

theorem parseU8_ne_fuel (d : List Nat) (p : P) : parseU8 d p ≠ .error .fuel := by
  unfold parseU8
  cases ht : take d p 1 with
  | error e => intro h; injection h with h; subst h; exact take_ne_fuel d p 1 ht
  | ok v => obtain ⟨a, q⟩ := v; simp [bind, Except.bind, pure, Except.pure]

/-- inversion of a successful `LabelType::parse` -/
theorem parseLabelType_ok_inv (d : List Nat) (p : P) (lt : LT) (p1 : P) (h : parseLabelType d p = .ok (lt, p1)) :
    p1.len = p.len ∧ p1.pos ≤ p1.len ∧
    match lt with
    | .normal n => p1.pos = p.pos + 1 ∧ n ≤ 63
    | .ptr _ => p1.pos = p.pos + 2 := by
  unfold parseLabelType at h
  cases h8 : parseU8 d p with
  | error e => rw [h8] at h; cases h
  | ok v =>
    obtain ⟨t, q⟩ := v
    rw [h8] at h
    have hq := parseU8_ok_inv d p t q h8
    simp only [bind, Except.bind] at h
    split at h
    · rename_i ht
      injection h with h; injection h with h1 h2; subst h1 h2
      exact ⟨hq.2.1, hq.2.2, hq.1, ht⟩
    · split at h
      · cases h9 : parseU8 d q with
        | error e => rw [h9] at h; cases h
        | ok w =>
          obtain ⟨lo, q2⟩ := w
          rw [h9] at h
          have hq2 := parseU8_ok_inv d q lo q2 h9
          injection h with h; injection h with h1 h2; subst h1 h2
          refine ⟨by show q2.len = p.len; omega, hq2.2.2, ?_⟩
          show q2.pos = p.pos + 2
          omega
      · cases h

theorem parseLabelType_ne_fuel (d : List Nat) (p : P) : parseLabelType d p ≠ .error .fuel := by
  unfold parseLabelType
  cases h8 : parseU8 d p with
  | error e => intro h; injection h with h; subst h; exact parseU8_ne_fuel d p h8
  | ok v =>
    obtain ⟨t, q⟩ := v
    simp only [bind, Except.bind]
    split
    · simp [pure, Except.pure]
    · split
      · cases h9 : parseU8 d q with
        | error e => intro h; injection h with h; subst h; exact parseU8_ne_fuel d q h9
        | ok w => obtain ⟨lo, q2⟩ := w; simp [pure, Except.pure]
      · simp [throw, throwThe, MonadExceptOf.throw]

/-! ## 2. `ParsedName::parse` -/

/-- `nameStep` without the monad -/
theorem nameStep_eq (d : List Nat) (s : NS) :
    nameStep d s =
      match parseLabelType d s.p with
      | .error e => .error e
      | .ok (.normal n, p1) =>
        if n = 0 then
          .ok (.done { labels := s.acc.reverse, nameLen := s.nameLen + 1, compressed := s.compressed } (s.outer.getD p1))
        else
          match take d p1 n with
          | .error e => .error e
          | .ok (label, p2) =>
            if s.nameLen + n + 1 ≥ 255 then .error .longName
            else .ok (.more { s with p := p2, nameLen := s.nameLen + n + 1, acc := label :: s.acc })
      | .ok (.ptr t, p1) =>
        if p1.pos < 2 then .error .panic
        else if t ≥ p1.pos - 2 then .error .compression
        else if t > p1.len then .error .shortInput
        else .ok (.more { s with p := { p1 with pos := t }, compressed := decide (s.nameLen ≠ 0), outer := some (s.outer.getD p1) }) := by
  unfold nameStep
  cases hl : parseLabelType d s.p with
  | error e => rfl
  | ok v =>
    obtain ⟨lt, p1⟩ := v
    cases lt with
    | normal n =>
      simp only [bind, Except.bind]
      by_cases hn : n = 0
      · simp only [hn, if_true]; rfl
      · simp only [hn, if_false]
        cases ht : take d p1 n with
        | error e => rfl
        | ok w =>
          obtain ⟨label, p2⟩ := w
          simp only []
          split <;> rfl
    | ptr t =>
      simp only [bind, Except.bind]
      split
      · rfl
      · split
        · rfl
        · split <;> rfl


/-- invariant of the loop state of `parse_ref`: the walking parser and the caller's parser satisfy the
parser invariant under the same limit `L` -/
def NS.Inv (d : List Nat) (L : Nat) (s : NS) : Prop :=
  s.p.Inv d ∧ s.p.len = L ∧ ∀ q, s.outer = some q → q.Inv d ∧ q.len = L

theorem outer_getD_inv (d : List Nat) (L : Nat) (s : NS) (hs : s.Inv d L) (p1 : P) (h1 : p1.Inv d) (h2 : p1.len = L) :
    (s.outer.getD p1).Inv d ∧ (s.outer.getD p1).len = L := by
  cases ho : s.outer with
  | none => exact ⟨h1, h2⟩
  | some q => exact hs.2.2 q ho

/-- one turn of the loop keeps the invariant and never panics -/
theorem nameStep_good (d : List Nat) (L : Nat) (s : NS) (hs : s.Inv d L) :
    match nameStep d s with
    | .ok (.more s') => s'.Inv d L
    | .ok (.done _ p') => p'.Inv d ∧ p'.len = L
    | .error e => e ≠ .panic ∧ e ≠ .fuel := by
  have hg := parseLabelType_good d s.p hs.1
  rw [nameStep_eq]
  cases hl : parseLabelType d s.p with
  | error e => rw [hl] at hg; exact hg
  | ok v =>
    obtain ⟨lt, p1⟩ := v
    rw [hl] at hg
    have hinv := parseLabelType_ok_inv d s.p lt p1 hl
    obtain ⟨hp1, hp1l⟩ := hg
    rw [hs.2.1] at hp1l
    cases lt with
    | normal n =>
      simp only
      by_cases hn : n = 0
      · simp only [hn, if_true]
        exact outer_getD_inv d L s hs p1 hp1 hp1l
      · simp only [hn, if_false]
        have ht := take_good d p1 n hp1
        cases hk : take d p1 n with
        | error e => rw [hk] at ht; exact ht
        | ok w =>
          obtain ⟨label, p2⟩ := w
          rw [hk] at ht
          simp only
          by_cases hlen : s.nameLen + n + 1 ≥ 255
          · rw [if_pos hlen]; exact ⟨by simp, by simp⟩
          · rw [if_neg hlen]; exact ⟨ht.1, by rw [ht.2, hp1l], hs.2.2⟩
    | ptr t =>
      simp only
      have h2 : p1.pos = s.p.pos + 2 := hinv.2.2
      rw [if_neg (by omega)]
      by_cases h3 : t ≥ p1.pos - 2
      · rw [if_pos h3]; exact ⟨by simp, by simp⟩
      · rw [if_neg h3]
        by_cases h4 : t > p1.len
        · rw [if_pos h4]; exact ⟨by simp, by simp⟩
        · rw [if_neg h4]
          refine ⟨⟨by show t ≤ p1.len; omega, hp1.2⟩, hp1l, ?_⟩
          intro q hq
          simp only [Option.some.injEq] at hq
          subst hq
          exact outer_getD_inv d L s hs p1 hp1 hp1l

/-- progress measure of the loop: a label lengthens the name (which stays below 255), a pointer moves the
cursor strictly backwards and leaves the name length alone -/
theorem nameStep_more (d : List Nat) (s s' : NS) (h : nameStep d s = .ok (.more s')) :
    s'.p.len = s.p.len ∧ s'.p.pos ≤ s'.p.len ∧
    ((∃ n, 1 ≤ n ∧ s'.nameLen = s.nameLen + n + 1 ∧ s'.nameLen < 255 ∧ s'.p.pos = s.p.pos + 1 + n) ∨
     (s'.nameLen = s.nameLen ∧ s'.p.pos < s.p.pos)) := by
  rw [nameStep_eq] at h
  cases hl : parseLabelType d s.p with
  | error e => rw [hl] at h; cases h
  | ok v =>
    obtain ⟨lt, p1⟩ := v
    rw [hl] at h
    have hinv := parseLabelType_ok_inv d s.p lt p1 hl
    cases lt with
    | normal n =>
      simp only at h
      by_cases hn : n = 0
      · simp only [hn, if_true] at h; cases h
      · simp only [hn, if_false] at h
        cases hk : take d p1 n with
        | error e => rw [hk] at h; cases h
        | ok w =>
          obtain ⟨label, p2⟩ := w
          rw [hk] at h
          have hti := take_ok_inv d p1 n label p2 hk
          simp only at h
          split at h
          · cases h
          · rename_i hlen
            injection h with h; injection h with h; subst h
            have h1 : p1.pos = s.p.pos + 1 := hinv.2.2.1
            refine ⟨by show p2.len = s.p.len; omega, hti.2.2.1, Or.inl ⟨n, by omega, rfl, by show s.nameLen + n + 1 < 255; omega, ?_⟩⟩
            show p2.pos = s.p.pos + 1 + n
            omega
    | ptr t =>
      simp only at h
      have h2 : p1.pos = s.p.pos + 2 := hinv.2.2
      split at h
      · cases h
      · split at h
        · cases h
        · split at h
          · cases h
          · rename_i h3 h4 h5
            injection h with h; injection h with h; subst h
            refine ⟨hinv.1, by show t ≤ p1.len; omega, Or.inr ⟨rfl, ?_⟩⟩
            show t < s.p.pos
            omega

theorem nameStep_ne_fuel (d : List Nat) (s : NS) : nameStep d s ≠ .error .fuel := by
  rw [nameStep_eq]
  cases hl : parseLabelType d s.p with
  | error e => intro h; injection h with h; subst h; exact parseLabelType_ne_fuel d s.p hl
  | ok v =>
    obtain ⟨lt, p1⟩ := v
    cases lt with
    | normal n =>
      simp only
      split
      · simp
      · cases hk : take d p1 n with
        | error e => intro h; injection h with h; subst h; exact take_ne_fuel d p1 n hk
        | ok w => obtain ⟨label, p2⟩ := w; simp only; split <;> simp
    | ptr t =>
      simp only
      split; · simp
      split; · simp
      split <;> simp


/-- a turn that continues started inside the limit -/
theorem nameStep_more_pos (d : List Nat) (s s' : NS) (h : nameStep d s = .ok (.more s')) : s.p.pos < s.p.len := by
  rw [nameStep_eq] at h
  cases hl : parseLabelType d s.p with
  | error e => rw [hl] at h; cases h
  | ok v =>
    obtain ⟨lt, p1⟩ := v
    have hinv := parseLabelType_ok_inv d s.p lt p1 hl
    cases lt with
    | normal n => have : p1.pos = s.p.pos + 1 := hinv.2.2.1; omega
    | ptr t => have : p1.pos = s.p.pos + 2 := hinv.2.2; omega

/-- the termination measure of the label loop: (name octets still allowed, cursor) in lexicographic order -/
def NS.mu (s : NS) : Nat := (255 - s.nameLen) * (s.p.len + 2) + s.p.pos

theorem nameStep_mu (d : List Nat) (s s' : NS) (h : nameStep d s = .ok (.more s')) : s'.mu < s.mu := by
  obtain ⟨hl, _, hc⟩ := nameStep_more d s s' h
  unfold NS.mu
  rw [hl]
  rcases hc with ⟨n, hn1, hn2, hn3, hn4⟩ | ⟨h1, h2⟩
  · have e : 255 - s.nameLen = (255 - s'.nameLen) + (n + 1) := by omega
    rw [e, Nat.add_mul]
    have : (n + 1) * 2 ≤ (n + 1) * (s.p.len + 2) := Nat.mul_le_mul_left _ (by omega)
    omega
  · rw [h1]; omega

/-- **the step budget is never exhausted**: `nameRun` with more fuel than the measure of its state does
not answer `fuel` -/
theorem nameRun_ne_fuel (d : List Nat) : ∀ (f : Nat) (s : NS), s.mu < f → nameRun f d s ≠ .error .fuel := by
  intro f
  induction f with
  | zero => intro s h; omega
  | succ f ih =>
    intro s h
    unfold nameRun
    cases hs : nameStep d s with
    | error e => simp only; intro h2; injection h2 with h2; subst h2; exact nameStep_ne_fuel d s hs
    | ok st =>
      cases st with
      | done n p => simp
      | more s' =>
        simp only
        exact ih s' (by have := nameStep_mu d s s' hs; omega)

theorem mu_init (p : P) (h : p.pos ≤ p.len) :
    NS.mu { p := p, nameLen := 0, acc := [], compressed := false, outer := none } < nameFuel p := by
  unfold NS.mu nameFuel
  simp only
  omega

/-- **`ParsedName::parse` terminates on every input**: whatever the octets and wherever the cursor, the
fuel `256 * (len + 2)` handed out by `parseName` suffices (compression pointers cannot loop) -/
theorem parseName_ne_fuel (d : List Nat) (p : P) : parseName d p ≠ .error .fuel := by
  unfold parseName
  by_cases h : p.pos ≤ p.len
  · exact nameRun_ne_fuel d _ _ (mu_init p h)
  · have hf : nameFuel p = (nameFuel p - 1) + 1 := by unfold nameFuel; omega
    rw [hf]
    unfold nameRun
    cases hs : nameStep d { p := p, nameLen := 0, acc := [], compressed := false, outer := none } with
    | error e => simp only; intro h2; injection h2 with h2; subst h2; exact nameStep_ne_fuel d _ hs
    | ok st =>
      cases st with
      | done n q => simp
      | more s' => have := nameStep_more_pos d _ s' hs; simp only at this; omega

/-- under the invariant, with enough fuel, the loop ends in a value or a proper error and hands back a
parser that satisfies the invariant -/
theorem nameRun_good (d : List Nat) (L : Nat) : ∀ (f : Nat) (s : NS), s.Inv d L → s.mu < f → GoodR d L (nameRun f d s) := by
  intro f
  induction f with
  | zero => intro s _ h; omega
  | succ f ih =>
    intro s hs h
    have hg := nameStep_good d L s hs
    unfold nameRun
    cases hst : nameStep d s with
    | error e => rw [hst] at hg; exact hg
    | ok st =>
      rw [hst] at hg
      cases st with
      | done n p => exact hg
      | more s' => exact ih s' hg (by have := nameStep_mu d s s' hst; omega)

theorem parseName_good (d : List Nat) (p : P) (hi : p.Inv d) : GoodR d p.len (parseName d p) := by
  unfold parseName
  refine nameRun_good d p.len _ _ ⟨hi, rfl, ?_⟩ (mu_init p hi.1)
  intro q hq; cases hq


/-! ### the flat (compression-free) encoding parses back -/

theorem parseU8_at' (d : List Nat) (p : P) (b : Nat) (B : List Nat) (h : d.drop p.pos = b :: B)
    (hfit : p.pos + 1 ≤ p.len) (hd : p.len ≤ d.length) :
    parseU8 d p = .ok (b, ⟨p.pos + 1, p.len⟩) ∧ d.drop (p.pos + 1) = B := by
  cases p with | mk pos len => exact parseU8_at d pos len b B h hfit hd

theorem take_at' (d : List Nat) (p : P) (A B : List Nat) (h : d.drop p.pos = A ++ B)
    (hfit : p.pos + A.length ≤ p.len) (hd : p.len ≤ d.length) :
    take d p A.length = .ok (A, ⟨p.pos + A.length, p.len⟩) ∧ d.drop (p.pos + A.length) = B := by
  cases p with | mk pos len => exact take_at d pos len A B h hfit hd

/-- a length octet 0..63 at the cursor is a normal label head -/
theorem parseLabelType_normal (d : List Nat) (p : P) (n : Nat) (B : List Nat) (hn : n ≤ 63) (h : d.drop p.pos = n :: B)
    (hfit : p.pos + 1 ≤ p.len) (hd : p.len ≤ d.length) :
    parseLabelType d p = .ok (.normal n, ⟨p.pos + 1, p.len⟩) := by
  unfold parseLabelType
  rw [(parseU8_at' d p n B h hfit hd).1]
  simp only [bind, Except.bind]
  rw [if_pos hn]; rfl

theorem encName_nil : encName [] = [0] := rfl
theorem encName_cons (l : List Nat) (ls : List (List Nat)) : encName (l :: ls) = (l.length % 256 :: l) ++ encName ls := by
  simp [encName, encLabel]

theorem encName_length_pos (ls : List (List Nat)) : 1 ≤ (encName ls).length := by
  simp [encName]

theorem encName_length_cons (l : List Nat) (ls : List (List Nat)) :
    (encName (l :: ls)).length = l.length + 1 + (encName ls).length := by
  rw [encName_cons]; simp; omega

/-- the label loop on the flat encoding of `labels`, from any loop state -/
theorem nameRun_flat (d : List Nat) : ∀ (labels : List (List Nat)) (f : Nat) (s : NS) (B : List Nat),
    (∀ l ∈ labels, 1 ≤ l.length ∧ l.length ≤ 63) →
    d.drop s.p.pos = encName labels ++ B →
    s.p.pos + (encName labels).length ≤ s.p.len → s.p.len ≤ d.length →
    s.nameLen + (encName labels).length ≤ 255 →
    labels.length < f →
    nameRun f d s = .ok ({ labels := s.acc.reverse ++ labels, nameLen := s.nameLen + (encName labels).length,
                           compressed := s.compressed },
                         s.outer.getD ⟨s.p.pos + (encName labels).length, s.p.len⟩) := by
  intro labels
  induction labels with
  | nil =>
    intro f s B _ hdrop hfit hd _ hf
    obtain ⟨f, rfl⟩ : ∃ k, f = k + 1 := ⟨f - 1, by omega⟩
    rw [encName_nil] at hdrop hfit
    simp only [List.length_cons, List.length_nil] at hfit
    unfold nameRun
    rw [nameStep_eq, parseLabelType_normal d s.p 0 B (by omega) hdrop (by omega) hd]
    simp [encName_nil]
  | cons l ls ih =>
    intro f s B hl hdrop hfit hd hlen hf
    obtain ⟨f, rfl⟩ : ∃ k, f = k + 1 := ⟨f - 1, by simp at hf; omega⟩
    have hl1 := hl l (by simp)
    have hmod : l.length % 256 = l.length := by omega
    rw [encName_length_cons] at hfit hlen
    have hpos := encName_length_pos ls
    rw [encName_cons, hmod] at hdrop
    have hdrop1 : d.drop s.p.pos = l.length :: (l ++ (encName ls ++ B)) := by
      rw [hdrop]; simp
    have hlt := parseLabelType_normal d s.p l.length _ hl1.2 hdrop1 (by omega) hd
    have hd1 : d.drop (s.p.pos + 1) = l ++ (encName ls ++ B) := (parseU8_at' d s.p _ _ hdrop1 (by omega) hd).2
    have htk := take_at' d ⟨s.p.pos + 1, s.p.len⟩ l (encName ls ++ B) hd1 (by simp only; omega) hd
    simp only at htk
    unfold nameRun
    rw [nameStep_eq, hlt]
    simp only
    rw [if_neg (by omega), htk.1]
    simp only
    rw [if_neg (by omega)]
    simp only
    have := ih f { s with p := ⟨s.p.pos + 1 + l.length, s.p.len⟩, nameLen := s.nameLen + l.length + 1, acc := l :: s.acc } B
      (fun x hx => hl x (by simp [hx])) htk.2 (by simp only; omega) hd (by simp only; omega) (by simp at hf; omega)
    rw [this]
    simp only [List.reverse_cons, List.append_assoc, List.singleton_append, encName_length_cons]
    congr 2
    · congr 1; omega
    · congr 2; omega

/-- **name round trip**: a name of 1..63-octet labels that is at most 255 octets on the wire, encoded
without compression at the cursor, is parsed back to exactly its labels; the parser ends right behind it -/
theorem parseName_flat (d : List Nat) (p : P) (labels : List (List Nat)) (B : List Nat) (hwf : NameWF labels)
    (hdrop : d.drop p.pos = encName labels ++ B) (hfit : p.pos + (encName labels).length ≤ p.len) (hd : p.len ≤ d.length) :
    parseName d p = .ok ({ labels := labels, nameLen := (encName labels).length, compressed := false },
                         ⟨p.pos + (encName labels).length, p.len⟩) := by
  unfold parseName
  have hlen : labels.length < nameFuel p := by
    have h1 : labels.length ≤ (encName labels).length := by
      clear hwf hdrop hfit
      induction labels with
      | nil => simp
      | cons l ls ih => rw [encName_length_cons]; simp; omega
    unfold nameFuel; omega
  have := nameRun_flat d labels (nameFuel p) { p := p, nameLen := 0, acc := [], compressed := false, outer := none } B
    hwf.1 hdrop hfit hd (by simp only; have := hwf.2; omega) hlen
  rw [this]
  simp


/-! ### a run of flat labels, then anything: the state after the labels -/

/-- octets of a run of labels (no root label) -/
def encLabels (labels : List (List Nat)) : List Nat := labels.flatMap encLabel

theorem encLabels_cons (l : List Nat) (ls : List (List Nat)) : encLabels (l :: ls) = (l.length % 256 :: l) ++ encLabels ls := by
  simp [encLabels, encLabel]

theorem encName_eq (ls : List (List Nat)) : encName ls = encLabels ls ++ [0] := rfl

theorem encLabels_length_cons (l : List Nat) (ls : List (List Nat)) :
    (encLabels (l :: ls)).length = l.length + 1 + (encLabels ls).length := by
  rw [encLabels_cons]; simp; omega

theorem length_le_encLabels (ls : List (List Nat)) : ls.length ≤ (encLabels ls).length := by
  induction ls with
  | nil => simp [encLabels]
  | cons l ls ih => rw [encLabels_length_cons]; simp; omega

/-- the loop state after walking over `labels` -/
def NS.after (s : NS) (labels : List (List Nat)) : NS :=
  { s with p := ⟨s.p.pos + (encLabels labels).length, s.p.len⟩, nameLen := s.nameLen + (encLabels labels).length,
           acc := labels.reverse ++ s.acc }

/-- walking over a run of well-formed labels that keeps the name below 255 octets costs one turn per label -/
theorem nameRun_labels (d : List Nat) : ∀ (labels : List (List Nat)) (f : Nat) (s : NS) (B : List Nat),
    (∀ l ∈ labels, 1 ≤ l.length ∧ l.length ≤ 63) →
    d.drop s.p.pos = encLabels labels ++ B →
    s.p.pos + (encLabels labels).length ≤ s.p.len → s.p.len ≤ d.length →
    s.nameLen + (encLabels labels).length < 255 →
    nameRun (f + labels.length) d s = nameRun f d (s.after labels) ∧ d.drop (s.p.pos + (encLabels labels).length) = B := by
  intro labels
  induction labels with
  | nil =>
    intro f s B _ hdrop _ _ _
    refine ⟨?_, by simpa [encLabels] using hdrop⟩
    cases s with | mk p nl acc c o => cases p with | mk pos len => simp [NS.after, encLabels]
  | cons l ls ih =>
    intro f s B hl hdrop hfit hd hlen
    have hl1 := hl l (by simp)
    have hmod : l.length % 256 = l.length := by omega
    rw [encLabels_length_cons] at hfit hlen
    rw [encLabels_cons, hmod] at hdrop
    have hdrop1 : d.drop s.p.pos = l.length :: (l ++ (encLabels ls ++ B)) := by
      rw [hdrop]; simp
    have hlt := parseLabelType_normal d s.p l.length _ hl1.2 hdrop1 (by omega) hd
    have hd1 : d.drop (s.p.pos + 1) = l ++ (encLabels ls ++ B) := (parseU8_at' d s.p _ _ hdrop1 (by omega) hd).2
    have htk := take_at' d ⟨s.p.pos + 1, s.p.len⟩ l (encLabels ls ++ B) hd1 (by simp only; omega) hd
    simp only at htk
    have hstep : nameRun (f + (l :: ls).length) d s
        = nameRun (f + ls.length) d { s with p := ⟨s.p.pos + 1 + l.length, s.p.len⟩, nameLen := s.nameLen + l.length + 1, acc := l :: s.acc } := by
      rw [show f + (l :: ls).length = (f + ls.length) + 1 by simp; omega]
      conv => lhs; unfold nameRun
      rw [nameStep_eq, hlt]
      simp only
      rw [if_neg (by omega), htk.1]
      simp only
      rw [if_neg (by omega)]
    have := ih f { s with p := ⟨s.p.pos + 1 + l.length, s.p.len⟩, nameLen := s.nameLen + l.length + 1, acc := l :: s.acc } B
      (fun x hx => hl x (by simp [hx])) htk.2 (by simp only; omega) hd (by simp only; omega)
    rw [hstep, this.1]
    refine ⟨?_, ?_⟩
    · congr 1
      simp only [NS.after, encLabels_length_cons, List.reverse_cons, List.append_assoc, List.singleton_append]
      congr 1
      · congr 1; omega
      · omega
    · have h2 := this.2
      simp only at h2
      rw [encLabels_length_cons, ← h2]; congr 1; omega


/-- the loop state `parseName` starts from -/
def NS.init (p : P) : NS := { p := p, nameLen := 0, acc := [], compressed := false, outer := none }

theorem parseName_eq_run (d : List Nat) (p : P) : parseName d p = nameRun (nameFuel p) d (NS.init p) := rfl

/-- `parseName` over a run of flat labels `pre` followed by anything: one turn of budget left at least, and
the loop state is "after `pre`" -/
theorem parseName_after (d : List Nat) (p : P) (pre : List (List Nat)) (B : List Nat)
    (hpre : ∀ l ∈ pre, 1 ≤ l.length ∧ l.length ≤ 63) (hdrop : d.drop p.pos = encLabels pre ++ B)
    (hfit : p.pos + (encLabels pre).length ≤ p.len) (hd : p.len ≤ d.length) (hlen : (encLabels pre).length < 255) :
    ∃ k, parseName d p = nameRun (k + 1) d ((NS.init p).after pre) ∧ d.drop (p.pos + (encLabels pre).length) = B ∧
      k + 1 + pre.length = nameFuel p := by
  have h1 := length_le_encLabels pre
  obtain ⟨k, hf⟩ : ∃ k, nameFuel p = k + 1 + pre.length := ⟨nameFuel p - pre.length - 1, by unfold nameFuel; omega⟩
  refine ⟨k, ?_⟩
  rw [parseName_eq_run, hf]
  have := nameRun_labels d pre (k + 1) (NS.init p) B hpre hdrop hfit hd (by simp only [NS.init]; omega)
  exact ⟨this.1, this.2, rfl⟩

theorem parseLabelType_eof (d : List Nat) (p : P) (h : p.pos = p.len) (hd : p.len ≤ d.length) :
    parseLabelType d p = .error .shortInput := by
  have := take_spec d p 1 ⟨by omega, hd⟩
  rcases this with ⟨_, h1⟩ | ⟨h2, _⟩
  · unfold parseLabelType parseU8; rw [h1]; rfl
  · omega

theorem parseLabelType_bad (d : List Nat) (p : P) (t : Nat) (B : List Nat) (h1 : 64 ≤ t) (h2 : t < 192)
    (h : d.drop p.pos = t :: B) (hfit : p.pos + 1 ≤ p.len) (hd : p.len ≤ d.length) :
    parseLabelType d p = .error .badLabel := by
  unfold parseLabelType
  rw [(parseU8_at' d p t B h hfit hd).1]
  simp only [bind, Except.bind]
  rw [if_neg (by omega), if_neg (by omega)]; rfl

theorem parseLabelType_ptr (d : List Nat) (p : P) (c lo : Nat) (B : List Nat) (h1 : 192 ≤ c)
    (h : d.drop p.pos = c :: lo :: B) (hfit : p.pos + 2 ≤ p.len) (hd : p.len ≤ d.length) :
    parseLabelType d p = .ok (.ptr (lo + c % 64 * 256), ⟨p.pos + 2, p.len⟩) := by
  unfold parseLabelType
  have a := parseU8_at' d p c (lo :: B) h (by omega) hd
  have b := parseU8_at' d ⟨p.pos + 1, p.len⟩ lo B a.2 (by simp only; omega) hd
  rw [a.1]
  simp only [bind, Except.bind]
  rw [if_neg (by omega), if_pos h1, b.1]; rfl

/-! ### refusal clauses of `ParsedName::parse` (each after an arbitrary run `pre` of well-formed labels) -/

/-- a length octet 0x40..0xBF is refused ("invalid label type"): labels longer than 63 octets do not exist -/
theorem parseName_rejects_bad_label (d : List Nat) (p : P) (pre : List (List Nat)) (t : Nat) (B : List Nat)
    (hpre : ∀ l ∈ pre, 1 ≤ l.length ∧ l.length ≤ 63) (ht1 : 64 ≤ t) (ht2 : t < 192)
    (hdrop : d.drop p.pos = encLabels pre ++ t :: B)
    (hfit : p.pos + (encLabels pre).length + 1 ≤ p.len) (hd : p.len ≤ d.length) (hlen : (encLabels pre).length < 255) :
    parseName d p = .error .badLabel := by
  obtain ⟨k, hk, hB, _⟩ := parseName_after d p pre (t :: B) hpre hdrop (by omega) hd hlen
  rw [hk]; unfold nameRun
  rw [nameStep_eq, parseLabelType_bad d ((NS.init p).after pre).p t B ht1 ht2 hB (by simp only [NS.after, NS.init]; omega) hd]

/-- a name that is cut off at a label boundary (no root label before the parser's limit) is refused -/
theorem parseName_rejects_truncated (d : List Nat) (p : P) (pre : List (List Nat)) (B : List Nat)
    (hpre : ∀ l ∈ pre, 1 ≤ l.length ∧ l.length ≤ 63) (hdrop : d.drop p.pos = encLabels pre ++ B)
    (hfit : p.pos + (encLabels pre).length = p.len) (hd : p.len ≤ d.length) (hlen : (encLabels pre).length < 255) :
    parseName d p = .error .shortInput := by
  obtain ⟨k, hk, _, _⟩ := parseName_after d p pre B hpre hdrop (by omega) hd hlen
  rw [hk]; unfold nameRun
  rw [nameStep_eq, parseLabelType_eof d ((NS.init p).after pre).p (by simp only [NS.after, NS.init]; omega) hd]

/-- a name that is cut off inside a label is refused -/
theorem parseName_rejects_truncated_label (d : List Nat) (p : P) (pre : List (List Nat)) (n : Nat) (B : List Nat)
    (hpre : ∀ l ∈ pre, 1 ≤ l.length ∧ l.length ≤ 63) (hn1 : 1 ≤ n) (hn2 : n ≤ 63)
    (hdrop : d.drop p.pos = encLabels pre ++ n :: B)
    (hfit : p.pos + (encLabels pre).length + 1 ≤ p.len) (hcut : p.len < p.pos + (encLabels pre).length + 1 + n)
    (hd : p.len ≤ d.length) (hlen : (encLabels pre).length < 255) :
    parseName d p = .error .shortInput := by
  obtain ⟨k, hk, hB, _⟩ := parseName_after d p pre (n :: B) hpre hdrop (by omega) hd hlen
  rw [hk]; unfold nameRun
  rw [nameStep_eq, parseLabelType_normal d ((NS.init p).after pre).p n B hn2 hB (by simp only [NS.after, NS.init]; omega) hd]
  simp only
  rw [if_neg (by omega)]
  have := take_spec d ⟨p.pos + (encLabels pre).length + 1, p.len⟩ n ⟨by simp only; omega, hd⟩
  rcases this with ⟨_, h1⟩ | ⟨h2, _⟩
  · simp only [NS.after, NS.init]; rw [h1]
  · simp only at h2; omega

/-- a compression pointer that does not point strictly before itself (self reference, forward pointer,
pointer past the end) is refused: this is what makes pointer loops impossible -/
theorem parseName_rejects_forward_pointer (d : List Nat) (p : P) (pre : List (List Nat)) (c lo : Nat) (B : List Nat)
    (hpre : ∀ l ∈ pre, 1 ≤ l.length ∧ l.length ≤ 63) (hc : 192 ≤ c)
    (hdrop : d.drop p.pos = encLabels pre ++ c :: lo :: B)
    (hfit : p.pos + (encLabels pre).length + 2 ≤ p.len) (hd : p.len ≤ d.length) (hlen : (encLabels pre).length < 255)
    (hfwd : p.pos + (encLabels pre).length ≤ lo + c % 64 * 256) :
    parseName d p = .error .compression := by
  obtain ⟨k, hk, hB, _⟩ := parseName_after d p pre (c :: lo :: B) hpre hdrop (by omega) hd hlen
  rw [hk]; unfold nameRun
  rw [nameStep_eq, parseLabelType_ptr d ((NS.init p).after pre).p c lo B hc hB (by simp only [NS.after, NS.init]; omega) hd]
  simp only [NS.after, NS.init]
  have e1 : ¬ (p.pos + (encLabels pre).length + 2 < 2) := by omega
  have e2 : lo + c % 64 * 256 ≥ p.pos + (encLabels pre).length + 2 - 2 := by omega
  simp only [e1, e2, if_true, if_false]

/-- a name that would exceed 255 octets is refused as soon as the label that crosses the limit is complete -/
theorem parseName_rejects_long (d : List Nat) (p : P) (pre : List (List Nat)) (l B : List Nat)
    (hpre : ∀ l ∈ pre, 1 ≤ l.length ∧ l.length ≤ 63) (hl1 : 1 ≤ l.length) (hl2 : l.length ≤ 63)
    (hdrop : d.drop p.pos = encLabels pre ++ l.length :: (l ++ B))
    (hfit : p.pos + (encLabels pre).length + 1 + l.length ≤ p.len) (hd : p.len ≤ d.length)
    (hlen : (encLabels pre).length < 255) (hlong : 255 ≤ (encLabels pre).length + l.length + 1) :
    parseName d p = .error .longName := by
  obtain ⟨k, hk, hB, _⟩ := parseName_after d p pre (l.length :: (l ++ B)) hpre hdrop (by omega) hd hlen
  rw [hk]; unfold nameRun
  rw [nameStep_eq, parseLabelType_normal d ((NS.init p).after pre).p l.length (l ++ B) hl2 hB (by simp only [NS.after, NS.init]; omega) hd]
  simp only
  rw [if_neg (by omega)]
  have hd1 := (parseU8_at' d ⟨p.pos + (encLabels pre).length, p.len⟩ _ _ hB (by simp only; omega) hd).2
  have htk := take_at' d ⟨p.pos + (encLabels pre).length + 1, p.len⟩ l B hd1 (by simp only; omega) hd
  simp only [NS.after, NS.init]
  rw [htk.1]
  have e1 : 0 + (encLabels pre).length + l.length + 1 ≥ 255 := by omega
  simp only [e1, if_true]

/-- **compressed name round trip** (suffix compression, what other responders send): labels followed by a
pointer to an earlier, flat name parse to the concatenation; the caller's parser ends behind the pointer -/
theorem parseName_compressed (d : List Nat) (p : P) (pre suf : List (List Nat)) (c lo : Nat) (B B' : List Nat)
    (hpre : ∀ l ∈ pre, 1 ≤ l.length ∧ l.length ≤ 63) (hsuf : ∀ l ∈ suf, 1 ≤ l.length ∧ l.length ≤ 63) (hc : 192 ≤ c)
    (hdrop : d.drop p.pos = encLabels pre ++ c :: lo :: B)
    (hfit : p.pos + (encLabels pre).length + 2 ≤ p.len) (hd : p.len ≤ d.length)
    (hback : lo + c % 64 * 256 < p.pos + (encLabels pre).length)
    (hsufdrop : d.drop (lo + c % 64 * 256) = encName suf ++ B')
    (hsuffit : lo + c % 64 * 256 + (encName suf).length ≤ p.len)
    (hlen : (encLabels pre).length + (encName suf).length ≤ 255) :
    parseName d p = .ok ({ labels := pre ++ suf, nameLen := (encLabels pre).length + (encName suf).length,
                           compressed := decide ((encLabels pre).length ≠ 0) },
                         ⟨p.pos + (encLabels pre).length + 2, p.len⟩) := by
  have hpos := encName_length_pos suf
  obtain ⟨k, hk, hB, hkf⟩ := parseName_after d p pre (c :: lo :: B) hpre hdrop (by omega) hd (by omega)
  rw [hk]; unfold nameRun
  rw [nameStep_eq, parseLabelType_ptr d ((NS.init p).after pre).p c lo B hc hB (by simp only [NS.after, NS.init]; omega) hd]
  simp only [NS.after, NS.init]
  have e1 : ¬ (p.pos + (encLabels pre).length + 2 < 2) := by omega
  have e2 : ¬ (lo + c % 64 * 256 ≥ p.pos + (encLabels pre).length + 2 - 2) := by omega
  have e3 : ¬ (lo + c % 64 * 256 > p.len) := by omega
  simp only [e1, e2, e3, if_false]
  have hsl : suf.length < k := by
    have h1 : suf.length ≤ (encName suf).length := by
      rw [encName_eq]; have := length_le_encLabels suf; simp; omega
    have h2 := length_le_encLabels pre
    unfold nameFuel at hkf
    omega
  have := nameRun_flat d suf k
    { p := ⟨lo + c % 64 * 256, p.len⟩, nameLen := 0 + (encLabels pre).length, acc := pre.reverse ++ [],
      compressed := decide (0 + (encLabels pre).length ≠ 0),
      outer := some ((none : Option P).getD ⟨p.pos + (encLabels pre).length + 2, p.len⟩) } B'
    hsuf hsufdrop (by simp only; omega) hd (by simp only; omega) hsl
  refine this.trans ?_
  simp


end Codec.Mdns
