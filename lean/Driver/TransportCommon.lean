import RsMatterVerif.Model.Transport
import Driver.Util
/-!
Shared driver part for C09 / C10 / C15 / C20: replays the op lines of `harness/src/transport_common.rs`
on `Model/Transport` and compares `<result> # <state>` with what the implementation printed.
Also parses the implementation's snapshot into a plain structure for the per-property oracles
(the oracles look only at the implementation's outputs, never at the model state).
-/
namespace Driver.TC
open Transport

/-! ## parsing the implementation's snapshot -/

structure ISlot where
  id : Nat
  role : String
  /-- pending retransmission (counter, attempts) -/
  rt : Option (Nat × Nat)
  /-- ack entry (counter, acknowledged) -/
  ak : Option (Nat × Bool)
deriving Repr, Inhabited, DecidableEq

structure ISess where
  uid : Nat
  lsid : Nat
  ctr : Nat
  expired : Bool
  reserved : Bool
  mode : String
  port : Nat := 0
  slots : List (Option ISlot)
deriving Repr, Inhabited

structure ISnap where
  nextSid : Nat := 0
  nextExch : Nat := 0
  sessions : List ISess := []
deriving Repr, Inhabited

def ISlot.isResponder (s : ISlot) : Bool := s.role.startsWith "R"
def ISlot.isDropped (s : ISlot) : Bool := s.role = "ID" || s.role = "RD"
def ISess.live (s : ISess) : List ISlot := s.slots.filterMap id

def numAfter (n : Nat) (t : String) : Nat := ((t.drop n).toString.toNat?).getD 0

def parsePair (t : String) : Option (Nat × Nat) :=
  match t.splitOn "/" with
  | [a, b] => match a.toNat?, b.toNat? with
    | some x, some y => some (x, y)
    | _, _ => none
  | _ => none

def stripBr (t : String) : String := (t.replace "[" "").replace "]" ""

/-- slots from the tokens after the session head -/
partial def parseSlots : List String → List (Option ISlot)
  | [] => []
  | "[-]" :: rest => none :: parseSlots rest
  | a :: b :: c :: d :: rest =>
    let s : ISlot := { id := (stripBr a).toNat?.getD 0, role := b,
                       rt := parsePair ((c.drop 1).toString),
                       ak := (parsePair ((stripBr d).drop 1).toString).map (fun p => (p.1, p.2 == 1)) }
    some s :: parseSlots rest
  | _ => []

def parseSess (chunk : String) : Option ISess :=
  match words chunk with
  | u :: l :: c :: f :: m :: pt :: rest =>
    some { uid := numAfter 1 u, lsid := numAfter 1 l, ctr := numAfter 1 c,
           expired := f.startsWith "e", reserved := f.endsWith "r", mode := m, port := numAfter 1 pt,
           slots := parseSlots rest }
  | _ => none

def parseSnap (s : String) : ISnap :=
  match s.splitOn " ::" with
  | [head, body] =>
    let hw := words head
    let n := numAfter 1 (hw.getD 0 "")
    let x := numAfter 1 (hw.getD 1 "")
    { nextSid := n, nextExch := x, sessions := (body.splitOn " |").filterMap parseSess }
  | _ => {}

def ISnap.sess (s : ISnap) (uid : Nat) : Option ISess := s.sessions.find? (·.uid == uid)

/-- split `<result> # <state>` -/
def splitHash (out : String) : String × String :=
  match out.splitOn " # " with
  | [a] => (a.trimAscii.toString, "")
  | a :: rest => (a.trimAscii.toString, (" # ".intercalate rest).trimAscii.toString)
  | [] => ("", "")

/-! ## model side -/

structure MSt where
  t : Table := {}
  now : Nat := 1000
  /-- handle → session uid of a live `ReservedSession` -/
  reserved : List (Nat × Nat) := []
  /-- handles on which `complete()` was called while the handle stayed alive -/
  completed : List Nat := []
  /-- handle → (session uid, slot) of a live `Exchange` object -/
  exchanges : List (Nat × Nat × Nat) := []
  /-- bare `ReliableMessage` of the `mrp` cases -/
  mrp : Mrp := {}
  isMrp : Bool := false
deriving Inhabited

def hnum (t : String) : Option Nat := ((t.drop 1).toString).toNat?
def optNat (t : String) : Option Nat := if t = "-" then none else t.toNat?
def showOpt : Option Nat → String
  | some v => toString v
  | none => "-"
def parseMode (t : String) : Mode := if t = "c" then .case else if t = "x" then .plain else .pase

def errS (e : Err) : String := if e = .panic then "panic" else s!"err {e.name}"

def withSess (st : MSt) (uid : Nat) (f : Sess → Sess × String) : MSt × String :=
  let (t, so) := st.t.get uid st.now
  match so with
  | none => (st, "nosess")
  | some s => let (s', r) := f s; ({ st with t := t.setSess s' }, r)

/-- one `tab` op on the model; `implRes` is consulted only for values the model cannot know
(random initial counter of `reserve_now`, lazy random seed of the exchange-id allocator). -/
def tabOp (st : MSt) (w : List String) (implRes : String) : MSt × String :=
  let n (i : Nat) : Nat := ((w.getD i "").toNat?).getD 0
  let iw := words implRes
  match w.getD 0 "" with
  | "t" => ({ st with now := st.now + n 1 }, "ok")
  | "add" =>
    let (t, r) := st.t.add (n 1) (n 2 != 0) st.now (n 3)
    match r with
    | .ok uid => ({ st with t := t }, s!"id {uid}")
    | .error e => ({ st with t := t }, errS e)
  | "rsv" =>
    match hnum (w.getD 1 "") with
    | none => (st, "bad")
    | some h =>
      if st.reserved.any (·.1 == h) then (st, "dup-handle") else
      let ctr := ((iw.getD 3 "").toNat?).getD 0
      let (t, r) := st.t.add ctr true st.now
      match r with
      | .ok uid => ({ st with t := t, reserved := st.reserved ++ [(h, uid)] }, s!"id {uid} ctr {ctr % (Consts.msgCtrRange + 1)}")
      | .error e => ({ st with t := t }, errS e)
  | "upd" =>
    match hnum (w.getD 1 "") with
    | none => (st, "bad")
    | some h =>
      match st.reserved.find? (·.1 == h) with
      | none => (st, "nohandle")
      | some (_, uid) =>
        let (t, ok) := st.t.reservedUpdate uid (n 2) (n 3) (parseMode (w.getD 4 "p")) st.now
        ({ st with t := t }, if ok then "ok" else "err NoSession")
  | "cpl" =>
    match hnum (w.getD 1 "") with
    | none => (st, "bad")
    | some h =>
      match st.reserved.find? (·.1 == h) with
      | none => (st, "nohandle")
      | some (_, uid) =>
        let (t, _) := st.t.reservedComplete uid st.now
        ({ st with t := t, completed := h :: st.completed }, "ok")
  | "cmp" | "drp" =>
    match hnum (w.getD 1 "") with
    | none => (st, "bad")
    | some h =>
      match st.reserved.find? (·.1 == h) with
      | none => (st, "nohandle")
      | some (_, uid) =>
        let wasCompleted := st.completed.contains h
        let st := { st with reserved := st.reserved.filter (·.1 != h), completed := st.completed.filter (· != h) }
        if w.getD 0 "" = "cmp" || wasCompleted then
          let (t, r) := st.t.reservedComplete uid st.now
          match r with
          | .ok _ => ({ st with t := t }, "ok")
          | .error _ => ({ st with t := t }, "panic")
        else
          let (t, _) := st.t.remove uid
          ({ st with t := t }, "ok")
  | "rm" =>
    let (t, ok) := st.t.remove (n 1)
    ({ st with t := t }, if ok then "ok" else "none")
  | "sid" =>
    let (t, r) := st.t.nextSessId
    ({ st with t := t }, toString r)
  | "xid" =>
    -- lazy seeding: the seed is random in the implementation; adopt it
    let t0 := if st.t.nextExch = 0 then { st.t with nextExch := (implRes.toNat?).getD 1 } else st.t
    let (t, r) := t0.nextExchId
    ({ st with t := t }, toString r)
  | "setsid" => ({ st with t := { st.t with nextSid := n 1 } }, "ok")
  | "setxid" => ({ st with t := { st.t with nextExch := n 1 } }, "ok")
  | "lsid" => withSess st (n 1) (fun s => ({ s with localSid := n 2 }, "ok"))
  | "mode" => withSess st (n 1) (fun s => ({ s with mode := parseMode (w.getD 2 "p") }, "ok"))
  | "exp" => withSess st (n 1) (fun s => ({ s with expired := true }, "ok"))
  | "setctr" => withSess st (n 1) (fun s => ({ s with ctr := n 2 }, "ok"))
  | "init" =>
    match hnum (w.getD 2 "") with
    | none => (st, "bad")
    | some h =>
      if st.exchanges.any (·.1 == h) then (st, "dup-handle") else
      let t0 := if st.t.nextExch = 0 && (st.t.sess (n 1)).any (fun s => !s.expired) then
          { st.t with nextExch := ((iw.getD 1 "").toNat?).getD 1 } else st.t
      let (t, r) := t0.initiate (n 1) st.now
      match r with
      | .ok (xid, i) => ({ st with t := t, exchanges := st.exchanges ++ [(h, n 1, i)] }, s!"x {xid} {i}")
      | .error e => ({ st with t := t }, errS e)
  | "acc" =>
    match hnum (w.getD 3 "") with
    | none => (st, "bad")
    | some h =>
      if st.exchanges.any (·.1 == h) then (st, "dup-handle") else
      let (t, ok) := st.t.accept (n 1) (n 2) st.now
      if ok then ({ st with t := t, exchanges := st.exchanges ++ [(h, n 1, n 2)] }, "ok")
      else ({ st with t := t }, "no")
  | "xdrop" =>
    match hnum (w.getD 1 "") with
    | none => (st, "bad")
    | some h =>
      match st.exchanges.find? (·.1 == h) with
      | none => (st, "nohandle")
      | some (_, uid, i) =>
        let st := { st with exchanges := st.exchanges.filter (·.1 != h) }
        -- `with_state` looks the session up once, `ExchangeId::session` once more: same instant
        let (t, r) := st.t.dropExchange uid i st.now
        match r with
        | .error .panic => ({ st with t := t }, "panic")
        | _ => ({ st with t := t }, "ok")
  | "rx" =>
    let h : RxHdr := { ctr := n 2, exch := n 3, initiator := w.getD 4 "" = "I", ack := optNat (w.getD 5 "-"),
                       reliable := w.getD 6 "" = "r", newOk := !(w.getD 7 "n" = "a" || w.getD 7 "n" = "s") }
    withSess st (n 1) (fun s =>
      let (s', r) := s.postRecv h st.now
      (s', match r with
        | .ok true => "new"
        | .ok false => "old"
        | .error e => errS e))
  | "tx" =>
    let slot := (w.getD 2 "-").toNat?
    withSess st (n 1) (fun s =>
      let (s', r) := s.preSend slot (w.getD 3 "" = "r") (optNat (w.getD 4 "-")) (optNat (w.getD 6 "-"))
      (s', match r with
        | .ok o => s!"ctr {o.ctr} rt {if o.retransmission then 1 else 0} ack {showOpt o.ack} sid {s.peerSid}"
        | .error e => errS e))
  | "evict" =>
    match st.t.evictionUid st.now with
    | some u => (st, s!"id {u}")
    | none => (st, "none")
  | "evictrm" =>
    match st.t.evictionUid st.now with
    | some u => let (t, _) := st.t.remove u; ({ st with t := t }, s!"id {u}")
    | none => (st, "none")
  | "swa" | "swo" =>
    let h : RxHdr := { ctr := 0, exch := n 3, initiator := w.getD 4 "" = "I", ack := none, reliable := false, newOk := true }
    let (t, cleared) := if w.getD 0 "" = "swa" then st.t.sweepAccept (n 1) (n 2) h st.now
                        else st.t.sweepOrphan (n 1) (n 2) h st.now
    ({ st with t := t }, if cleared then "cleared" else "kept")
  | "swd" =>
    let t0 := if st.t.nextExch = 0 && iw.getD 0 "" = "sess" then { st.t with nextExch := ((iw.getD 2 "").toNat?).getD 1 } else st.t
    let (t, o) := t0.sweepDropped st.now
    ({ st with t := t }, match o with
      | .nothing => "none"
      | .closedSession _ xid ctr => s!"sess x {xid} ctr {ctr}"
      | .closedExchange _ _ xid (some (ctr, ack)) => s!"exch ack {ack} ctr {ctr} x {xid}"
      | .closedExchange _ _ _ none => "exch")
  | "qchk" => (st, "ok")
  | "own" =>
    match st.t.sess (n 1) with
    | none => (st, "nosess")
    | some s =>
      let h : RxHdr := { ctr := 0, exch := n 2, initiator := w.getD 3 "" = "I", ack := none, reliable := false, newOk := true }
      (st, showOpt (s.getExchForRx h))
  | _ => (st, "bad")

def Mrp.showFull (m : Mrp) : String := m.show ++ (if m.recvAt.isSome then " R" else " -")

def mrpOp (st : MSt) (w : List String) : MSt × String :=
  let n (i : Nat) : Nat := ((w.getD i "").toNat?).getD 0
  match w.getD 0 "" with
  | "t" => ({ st with now := st.now + n 1 }, "ok")
  | "ps" =>
    let (m, ack, err) := st.mrp.preSend (n 1) (w.getD 2 "" = "r") (optNat (w.getD 3 "-")) (optNat (w.getD 4 "-"))
    ({ st with mrp := m }, match err with
      | some e => errS e
      | none => s!"ok ack {showOpt ack}")
  | "pr" =>
    let (m, err) := st.mrp.postRecv (n 1) (optNat (w.getD 2 "-")) (w.getD 3 "" = "r") st.now
    ({ st with mrp := m }, match err with
      | some e => errS e
      | none => "ok")
  | "dl" =>
    (st, match st.mrp.retrans with
      | some r => toString (r.delayMs (n 1))
      | none => "none")
  | "bo" => (st, toString (backoffMs (n 1) (n 2) (n 3)))
  | "to" => (st, if st.mrp.hasRxTimedOut (n 1) st.now then "1" else "0")
  | _ => (st, "bad")

/-- model step for one non-`case` line: returns the new state and `none` if the model agrees with the
implementation, `some <model output>` otherwise -/
def modelStep (st : MSt) (op out : String) : MSt × Option String :=
  let w := words op
  let (ires, _) := splitHash out
  let (st', res) := if st.isMrp then mrpOp st w else tabOp st w ires
  let full := res ++ " # " ++ (if st.isMrp then Mrp.showFull st'.mrp else st'.t.show)
  (st', if full = out then none else some full)

def newCase (kindWords : List String) : MSt :=
  { isMrp := kindWords.head? = some "mrp" }

end Driver.TC
