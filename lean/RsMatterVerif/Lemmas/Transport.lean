import RsMatterVerif.Model.Transport
/-!
# Lemmas about `Model/Transport.lean` shared by C09 / C10 / C15 / C20
-/
namespace Transport

/-! ## the id allocators -/

/-- the `i`-th candidate the allocator loop looks at -/
def bumpIter : Nat → Nat → Nat
  | 0, c => c
  | i + 1, c => bumpIter i (bump c)

theorem bump_range (x : Nat) : 1 ≤ bump x ∧ bump x ≤ 65535 := by
  unfold bump
  simp only
  split <;> omega

theorem bump_closed (x : Nat) (h1 : 1 ≤ x) (h2 : x ≤ 65535) : bump x = (x - 1 + 1) % 65535 + 1 := by
  unfold bump
  simp only
  split <;> omega

theorem bumpIter_closed (i : Nat) : ∀ c, 1 ≤ c → c ≤ 65535 → bumpIter i c = (c - 1 + i) % 65535 + 1 := by
  induction i with
  | zero => intro c h1 h2; simp only [bumpIter]; omega
  | succ i ih =>
    intro c h1 h2
    simp only [bumpIter]
    have hb := bump_range c
    rw [ih (bump c) hb.1 hb.2, bump_closed c h1 h2]
    omega

theorem bumpIter_inj (c : Nat) (h1 : 1 ≤ c) (h2 : c ≤ 65535) (i j : Nat) (hi : i < 65535) (hj : j < 65535)
    (h : bumpIter i c = bumpIter j c) : i = j := by
  rw [bumpIter_closed i c h1 h2, bumpIter_closed j c h1 h2] at h
  omega

/-- pigeon-hole: `n` distinct values inside a list need `n` places -/
theorem pigeon (f : Nat → Nat) : ∀ (n : Nat) (l : List Nat),
    (∀ i j, i < n → j < n → f i = f j → i = j) → (∀ i, i < n → f i ∈ l) → n ≤ l.length := by
  intro n
  induction n with
  | zero => intro l _ _; omega
  | succ n ih =>
    intro l hinj hmem
    have hin : f n ∈ l := hmem n (by omega)
    have hlen : (l.erase (f n)).length = l.length - 1 := List.length_erase_of_mem hin
    have hpos : 0 < l.length := List.length_pos_of_mem hin
    have := ih (l.erase (f n))
      (fun i j hi hj h => hinj i j (by omega) (by omega) h)
      (fun i hi => by
        have hne : f i ≠ f n := fun h => by have := hinj i n (by omega) (by omega) h; omega
        exact (List.mem_erase_of_ne hne).2 (hmem i (by omega)))
    omega

/-- the loop answers a live id only if every candidate it looked at (and the one it stopped at) is live -/
theorem allocLoop_live_imp (live : List Nat) : ∀ (fuel cur : Nat),
    (allocLoop live fuel cur).1 ∈ live → ∀ i, i ≤ fuel → bumpIter i cur ∈ live := by
  intro fuel
  induction fuel with
  | zero =>
    intro cur h i hi
    have : i = 0 := by omega
    subst this
    simpa [allocLoop, bumpIter] using h
  | succ fuel ih =>
    intro cur h i hi
    unfold allocLoop at h
    split at h
    · rename_i hall
      -- the loop stopped at `cur` because it is not live: contradiction with `h`
      simp only at h
      have : (cur != cur) = true := (List.all_eq_true.1 hall) cur h
      simp at this
    · rename_i hall
      cases i with
      | zero =>
        simp only [bumpIter]
        have : ¬ ∀ x ∈ live, (x != cur) = true := fun hx => hall (List.all_eq_true.2 hx)
        apply Classical.byContradiction
        intro hn
        apply this
        intro x hx
        simp only [bne_iff_ne, ne_eq]
        intro hxc
        exact hn (hxc ▸ hx)
      | succ i =>
        simp only [bumpIter]
        exact ih (bump cur) h i (by omega)

/-- **Freshness of the allocator**: with fewer than 65535 live ids the chosen id is never a live one. -/
theorem allocLoop_fresh (live : List Nat) (cur : Nat) (h1 : 1 ≤ cur) (h2 : cur ≤ 65535)
    (hlen : live.length < 65535) : (allocLoop live 65536 cur).1 ∉ live := by
  intro hin
  have hall := allocLoop_live_imp live 65536 cur hin
  have := pigeon (fun i => bumpIter i cur) 65535 live
    (fun i j hi hj h => bumpIter_inj cur h1 h2 i j hi hj h)
    (fun i hi => hall i (by omega))
  omega

/-- the allocator's next position stays inside `1..65535` -/
theorem allocLoop_next_range (live : List Nat) : ∀ (fuel cur : Nat),
    1 ≤ (allocLoop live fuel cur).2 ∧ (allocLoop live fuel cur).2 ≤ 65535 := by
  intro fuel
  induction fuel with
  | zero => intro cur; simpa [allocLoop] using bump_range cur
  | succ fuel ih =>
    intro cur
    unfold allocLoop
    split
    · simpa using bump_range cur
    · exact ih (bump cur)

/-! ## exchange slots -/

theorem slot_set (s : Sess) (i j : Nat) (v : Option Exch) :
    ({ s with exchs := s.exchs.set i v } : Sess).slot j =
      if i = j then (if i < s.exchs.length then v else none) else s.slot j := by
  simp only [Sess.slot, List.getElem?_set]
  split
  · split <;> simp
  · rfl

theorem slot_lt (s : Sess) (i : Nat) (e : Exch) (h : s.slot i = some e) : i < s.exchs.length := by
  simp only [Sess.slot] at h
  cases hg : s.exchs[i]? with
  | none => simp [hg] at h
  | some v => exact (List.getElem?_eq_some_iff.1 hg).1

theorem slot_append (s : Sess) (j : Nat) (v : Option Exch) :
    ({ s with exchs := s.exchs ++ [v] } : Sess).slot j =
      if j = s.exchs.length then v else s.slot j := by
  simp only [Sess.slot, List.getElem?_append]
  split
  · rename_i h
    have : j ≠ s.exchs.length := by omega
    simp [this]
  · rename_i h
    by_cases hj : j = s.exchs.length
    · simp [hj]
    · have : j - s.exchs.length ≠ 0 := by omega
      simp only [hj, ↓reduceIte]
      have h2 : s.exchs[j]? = none := List.getElem?_eq_none (by omega)
      rw [h2]
      cases hk : j - s.exchs.length with
      | zero => omega
      | succ k => simp

theorem setMrp_slot (s : Sess) (i j : Nat) (m : Mrp) :
    (s.setMrp i m).slot j =
      if i = j then (s.slot i).map (fun e => { e with mrp := m }) else s.slot j := by
  unfold Sess.setMrp
  cases hs : s.slot i with
  | none =>
    simp only
    split
    · rename_i h; subst h; simp [hs]
    · rfl
  | some e =>
    simp only [slot_set]
    have := slot_lt s i e hs
    split
    · simp
    · rfl

theorem setMrp_ctr (s : Sess) (i : Nat) (m : Mrp) : (s.setMrp i m).ctr = s.ctr := by
  unfold Sess.setMrp; split <;> rfl


/-! ## MRP -/

/-- counter of the acknowledgement that will be piggy-backed -/
def Mrp.ackCtr (m : Mrp) : Option Nat := m.ack.map (·.ctr)

/-- the ack field `pre_send` writes -/
def outAckOf (m : Mrp) (hdrAck : Option Nat) : Option Nat :=
  match m.ackCtr with
  | some a => some a
  | none => hdrAck

theorem preSend_outAck (m : Mrp) (c : Nat) (rel : Bool) (ha sai : Option Nat) :
    (m.preSend c rel ha sai).2.1 = outAckOf m ha := by
  unfold Mrp.preSend outAckOf Mrp.ackCtr
  cases hm : m.ack <;> simp only [Option.map] <;> (split <;> try (split <;> try split)) <;> rfl

/-- `pre_send` of a retransmission (the pending counter again) within the budget -/
theorem preSend_retrans_ok (m : Mrp) (r : Retrans) (ha sai : Option Nat)
    (hr : m.retrans = some r) (hb : r.count < Consts.mrpMaxTransmissions) :
    m.preSend r.ctr true ha sai =
      ({ retrans := some { r with count := r.count + 1 }, ack := m.ack.map (fun a => { a with acked := true }),
         recvAt := none }, outAckOf m ha, none) := by
  have hout := preSend_outAck m r.ctr true ha sai
  unfold Mrp.preSend at hout ⊢
  simp only [hr, Retrans.preSend, hb, ↓reduceIte] at hout ⊢
  simp only [Prod.mk.injEq, true_and, and_true]
  exact hout

/-- `pre_send` of a retransmission once the budget is used up: `TxTimeout`, never success -/
theorem preSend_retrans_timeout (m : Mrp) (r : Retrans) (ha sai : Option Nat)
    (hr : m.retrans = some r) (hb : ¬ r.count < Consts.mrpMaxTransmissions) :
    (m.preSend r.ctr true ha sai).2.2 = some .txTimeout ∧
    (m.preSend r.ctr true ha sai).1.retrans = none ∧ (m.preSend r.ctr true ha sai).1.ack = none := by
  unfold Mrp.preSend
  simp [hr, Retrans.preSend, hb]

theorem preSend_ackCtr (m : Mrp) (c : Nat) (rel : Bool) (ha sai : Option Nat)
    (hok : (m.preSend c rel ha sai).2.2 = none) : (m.preSend c rel ha sai).1.ackCtr = m.ackCtr := by
  unfold Mrp.preSend at hok ⊢
  unfold Mrp.ackCtr
  cases rel
  · cases hm : m.ack <;> simp
  · cases hrt : m.retrans with
    | none => cases hm : m.ack <;> simp
    | some r =>
      simp only [hrt] at hok ⊢
      cases hp : r.preSend c with
      | ok r' => cases hm : m.ack <;> simp
      | error e => cases e <;> simp [hp] at hok

/-- what `post_recv` does to an exchange with a pending retransmission -/
theorem postRecv_pending (m : Mrp) (r : Retrans) (rxCtr : Nat) (ackOpt : Option Nat) (rel : Bool) (now : Nat)
    (hr : m.retrans = some r) :
    let res := m.postRecv rxCtr ackOpt rel now
    (ackOpt = some r.ctr → res.2 = none ∧ res.1.retrans = none) ∧
    (∀ a, ackOpt = some a → a ≠ r.ctr → res = (m, some .duplicate)) ∧
    (ackOpt = none → res.2 = none ∧ res.1.retrans = some r ∧
       res.1.ackCtr = if rel then some rxCtr else m.ackCtr) := by
  simp only
  refine ⟨?_, ?_, ?_⟩
  · intro ha
    subst ha
    unfold Mrp.postRecv
    simp only [hr, ne_eq, not_true_eq_false, ↓reduceIte]
    cases rel <;> simp
  · intro a ha hne
    subst ha
    unfold Mrp.postRecv
    have : r.ctr ≠ a := fun h => hne h.symm
    simp [hr, this]
  · intro ha
    subst ha
    unfold Mrp.postRecv
    cases rel <;> simp [hr, Mrp.ackCtr]



/-- all pending retransmissions in the slots remember counters below `b` -/
def SlotsBelow (s : Sess) (b : Nat) : Prop :=
  ∀ j e r, s.slot j = some e → e.mrp.retrans = some r → r.ctr < b

theorem slotsBelow_mono (s : Sess) (a b : Nat) (h : SlotsBelow s a) (hab : a ≤ b) : SlotsBelow s b :=
  fun j e r hs hr => Nat.lt_of_lt_of_le (h j e r hs hr) hab

theorem slotsBelow_setMrp (s : Sess) (i : Nat) (m : Mrp) (b : Nat) (h : SlotsBelow s b)
    (hm : ∀ r, m.retrans = some r → r.ctr < b) : SlotsBelow (s.setMrp i m) b := by
  intro j e r hs hr
  rw [setMrp_slot] at hs
  split at hs
  · cases hsi : s.slot i with
    | none => simp [hsi] at hs
    | some e0 =>
      simp only [hsi, Option.map_some, Option.some.injEq] at hs
      subst hs
      exact hm r hr
  · exact h j e r hs hr

/-- where a pending retransmission after `pre_send` comes from, and which errors are possible -/
theorem preSend_retrans_origin (m : Mrp) (c : Nat) (rel : Bool) (ha sai : Option Nat) :
    let res := m.preSend c rel ha sai
    (∀ r', res.1.retrans = some r' →
        (m.retrans = none ∧ r'.ctr = c) ∨ (∃ r, m.retrans = some r ∧ r'.ctr = r.ctr)) ∧
    (m.retrans = none → res.2.2 = none) ∧
    (∀ r, m.retrans = some r → c = r.ctr → res.2.2 = none ∨ (res.2.2 = some .txTimeout ∧ res.1.retrans = none)) := by
  simp only
  cases rel <;> cases hm : m.retrans with
  | none => simp [Mrp.preSend, hm, Retrans.new]
  | some r =>
    by_cases hc : r.ctr = c <;> by_cases hb : r.count < Consts.mrpMaxTransmissions <;>
      simp [Mrp.preSend, hm, Retrans.preSend, hc, hb] <;> (try intro h; try exact absurd h.symm hc) <;> try omega



theorem slot_ctr_irrel (s : Sess) (c : Nat) (j : Nat) : ({ s with ctr := c } : Sess).slot j = s.slot j := rfl
theorem slot_expired_irrel (s : Sess) (b : Bool) (j : Nat) : ({ s with expired := b } : Sess).slot j = s.slot j := rfl

theorem preSend_facts (s : Sess) (idx : Option Nat) (rel : Bool) (ha sai : Option Nat)
    (hinv : SlotsBelow s s.ctr) :
    let res := s.preSend idx rel ha sai
    SlotsBelow res.1 res.1.ctr ∧ s.ctr ≤ res.1.ctr ∧
    (∀ o, res.2 = .ok o → o.ctr < res.1.ctr ∧
        (o.retransmission = false → o.ctr = s.ctr ∧ res.1.ctr = s.ctr + 1) ∧
        (o.retransmission = true → ∃ i e r, idx = some i ∧ s.slot i = some e ∧ e.mrp.retrans = some r ∧
            o.ctr = r.ctr ∧ res.1.ctr = s.ctr)) := by
  simp only
  cases idx with
  | none =>
    simp only [Sess.preSend]
    refine ⟨fun j e r hs hr => ?_, by omega, ?_⟩
    · have := hinv j e r hs hr
      show r.ctr < s.ctr + 1
      omega
    · intro o ho
      simp only [Except.ok.injEq] at ho
      subst ho
      simp
  | some i =>
    cases hs : s.slot i with
    | none =>
      simp only [Sess.preSend, hs]
      exact ⟨hinv, Nat.le_refl _, fun o ho => by simp at ho⟩
    | some e =>
      cases hrt : e.mrp.retrans with
      | none =>
        have horig := preSend_retrans_origin e.mrp s.ctr rel ha sai
        simp only [Sess.preSend, hs, hrt, Option.map_none]
        generalize hP : e.mrp.preSend s.ctr rel ha sai = P at horig ⊢
        obtain ⟨m', oa, err⟩ := P
        simp only at horig
        have herr : err = none := horig.2.1 hrt
        subst herr
        simp only [setMrp_ctr]
        refine ⟨?_, by omega, ?_⟩
        · apply slotsBelow_setMrp
          · intro j e0 r0 hs0 hr0
            have := hinv j e0 r0 hs0 hr0
            omega
          · intro r' hr'
            rcases horig.1 r' hr' with ⟨_, hc⟩ | ⟨r, hr, _⟩
            · omega
            · simp [hrt] at hr
        · intro o ho
          simp only [Except.ok.injEq] at ho
          subst ho
          simp
      | some r =>
        have horig := preSend_retrans_origin e.mrp r.ctr rel ha sai
        have hlt := hinv i e r hs hrt
        simp only [Sess.preSend, hs, hrt, Option.map_some]
        generalize hP : e.mrp.preSend r.ctr rel ha sai = P at horig ⊢
        obtain ⟨m', oa, err⟩ := P
        simp only at horig
        rcases horig.2.2 r hrt rfl with herr | ⟨herr, hnone⟩
        · subst herr
          simp only [setMrp_ctr]
          refine ⟨?_, Nat.le_refl _, ?_⟩
          · apply slotsBelow_setMrp _ _ _ _ hinv
            intro r' hr'
            rcases horig.1 r' hr' with ⟨hn, _⟩ | ⟨r0, hr0, hc⟩
            · simp [hrt] at hn
            · simp only [hrt, Option.some.injEq] at hr0
              subst hr0
              omega
          · intro o ho
            simp only [Except.ok.injEq] at ho
            subst ho
            simp only [Option.isSome_some, Bool.true_eq_false, false_implies, true_and]
            exact ⟨hlt, fun _ => ⟨i, e, r, rfl, hs, hrt, rfl, by first | rfl | trivial⟩⟩
        · subst herr
          simp only
          have hb : SlotsBelow (s.setMrp i m') s.ctr := by
            apply slotsBelow_setMrp _ _ _ _ hinv
            intro r' hr'
            simp [hnone] at hr'
          split
          all_goals refine ⟨fun j e0 r0 hs0 hr0 => ?_, by simp [setMrp_ctr], fun o ho => by simp at ho⟩
          all_goals (have := hb j e0 r0 hs0 hr0; simpa [setMrp_ctr] using this)



/-- every pending retransmission of `s'` was already pending in the same slot of `s` -/
def RtSub (s s' : Sess) : Prop :=
  ∀ j e' r, s'.slot j = some e' → e'.mrp.retrans = some r → ∃ e, s.slot j = some e ∧ e.mrp.retrans = some r

theorem RtSub.refl (s : Sess) : RtSub s s := fun _ e' _ hs hr => ⟨e', hs, hr⟩

theorem RtSub.trans {a b c : Sess} (h1 : RtSub a b) (h2 : RtSub b c) : RtSub a c := by
  intro j e' r hs hr
  obtain ⟨e, hs1, hr1⟩ := h2 j e' r hs hr
  exact h1 j e r hs1 hr1

theorem slotsBelow_of_rtSub {s s' : Sess} {b : Nat} (h : RtSub s s') (hb : SlotsBelow s b) : SlotsBelow s' b := by
  intro j e' r hs hr
  obtain ⟨e, hs1, hr1⟩ := h j e' r hs hr
  exact hb j e r hs1 hr1

theorem postRecv_mrp_retrans (m : Mrp) (c : Nat) (a : Option Nat) (rel : Bool) (now : Nat) (r : Retrans)
    (h : (m.postRecv c a rel now).1.retrans = some r) : m.retrans = some r := by
  unfold Mrp.postRecv at h
  cases a <;> cases hm : m.retrans <;> cases rel <;> simp [hm] at h ⊢ <;> (try split at h) <;> simp_all

theorem rtSub_setMrp (s : Sess) (i : Nat) (m : Mrp)
    (h : ∀ e r, s.slot i = some e → m.retrans = some r → e.mrp.retrans = some r) : RtSub s (s.setMrp i m) := by
  intro j e' r hs hr
  rw [setMrp_slot] at hs
  split at hs
  · rename_i hij
    subst hij
    cases hsi : s.slot i with
    | none => simp [hsi] at hs
    | some e0 =>
      simp only [hsi, Option.map_some, Option.some.injEq] at hs
      subst hs
      exact ⟨e0, rfl, h e0 r hsi hr⟩
  · exact ⟨e', hs, hr⟩

theorem firstNone_spec : ∀ (l : List (Option Exch)) (k i : Nat), firstNone l k = some i →
    k ≤ i ∧ i - k < l.length ∧ l[i - k]? = some none := by
  intro l
  induction l with
  | nil => intro k i h; simp [firstNone] at h
  | cons x xs ih =>
    intro k i h
    cases x with
    | none =>
      simp only [firstNone, Option.some.injEq] at h
      subst h
      simp
    | some e =>
      simp only [firstNone] at h
      have := ih (k + 1) i h
      have h1 : i - k = (i - (k + 1)) + 1 := by omega
      refine ⟨by omega, by simp only [List.length_cons]; omega, ?_⟩
      rw [h1, List.getElem?_cons_succ]
      exact this.2.2

/-- `add_exch` puts the new exchange into a slot that was free, and touches nothing else -/
theorem addExch_slot (s s' : Sess) (id : Nat) (role : RoleSt) (i : Nat) (h : s.addExch id role = some (s', i)) :
    s.slot i = none ∧ s'.ctr = s.ctr ∧
    ∀ j, s'.slot j = if j = i then some { id := id, role := role } else s.slot j := by
  unfold Sess.addExch at h
  simp only at h
  split at h
  · simp only [Option.some.injEq, Prod.mk.injEq] at h
    obtain ⟨h1, h2⟩ := h
    subst h1 h2
    refine ⟨?_, rfl, fun j => slot_append s j _⟩
    simp [Sess.slot]
  · split at h
    · rename_i k hk
      simp only [Option.some.injEq, Prod.mk.injEq] at h
      obtain ⟨h1, h2⟩ := h
      subst h1 h2
      have hf := firstNone_spec s.exchs 0 k hk
      simp only [Nat.sub_zero] at hf
      refine ⟨by simp [Sess.slot, hf.2.2], rfl, fun j => ?_⟩
      rw [slot_set]
      by_cases hj : j = k
      · subst hj; simp [hf.2.1]
      · have : ¬ k = j := fun h => hj h.symm
        simp [hj, this]
    · simp at h

theorem rtSub_addExch (s s' : Sess) (id : Nat) (role : RoleSt) (i : Nat) (h : s.addExch id role = some (s', i)) :
    RtSub s s' := by
  obtain ⟨_, _, hsl⟩ := addExch_slot s s' id role i h
  intro j e' r hs hr
  rw [hsl j] at hs
  split at hs
  · simp only [Option.some.injEq] at hs
    subst hs
    simp at hr
  · exact ⟨e', hs, hr⟩



theorem rtSub_rx_irrel (s : Sess) (rx : Dedup.RxState) : RtSub s { s with rx := rx } :=
  fun _ e' _ hs hr => ⟨e', hs, hr⟩

theorem postRecv_facts (s : Sess) (h : RxHdr) (now : Nat) :
    RtSub s (s.postRecv h now).1 ∧ (s.postRecv h now).1.ctr = s.ctr := by
  unfold Sess.postRecv
  simp only
  split
  · exact ⟨rtSub_rx_irrel s _, rfl⟩
  · generalize hs0 : ({ s with rx := (Dedup.postRecv s.rx h.ctr s.mode.enc false).1 } : Sess) = s0
    have h0 : RtSub s s0 := by subst hs0; exact rtSub_rx_irrel s _
    have hc0 : s0.ctr = s.ctr := by subst hs0; rfl
    split
    · rename_i i _
      split
      · rename_i e he
        generalize hP : e.mrp.postRecv h.ctr h.ack h.reliable now = P
        obtain ⟨m, err⟩ := P
        have hsub : RtSub s0 (s0.setMrp i m) := by
          apply rtSub_setMrp
          intro e1 r hs1 hr
          rw [he] at hs1
          simp only [Option.some.injEq] at hs1
          subst hs1
          have := postRecv_mrp_retrans e.mrp h.ctr h.ack h.reliable now r
          rw [hP] at this
          exact this hr
        cases err <;> exact ⟨h0.trans hsub, by simp [setMrp_ctr, hc0]⟩
      · exact ⟨h0, hc0⟩
    · split
      · exact ⟨h0, hc0⟩
      · split
        · exact ⟨h0, hc0⟩
        · split
          · rename_i s' i ha
            generalize hP : ({} : Mrp).postRecv h.ctr h.ack h.reliable now = P
            obtain ⟨m, err⟩ := P
            have hadd := rtSub_addExch s0 s' h.exch .rp i ha
            have hctr := (addExch_slot s0 s' h.exch .rp i ha).2.1
            have hsub : RtSub s' (s'.setMrp i m) := by
              apply rtSub_setMrp
              intro e1 r _ hr
              have := postRecv_mrp_retrans ({} : Mrp) h.ctr h.ack h.reliable now r
              rw [hP] at this
              have := this hr
              simp at this
            cases err <;> exact ⟨(h0.trans hadd).trans hsub, by simp [setMrp_ctr, hctr, hc0]⟩
          · exact ⟨h0, hc0⟩

theorem removeExch_facts (s : Sess) (i : Nat) :
    RtSub s (s.removeExch i).1 ∧ (s.removeExch i).1.ctr = s.ctr := by
  unfold Sess.removeExch
  split
  · exact ⟨RtSub.refl s, rfl⟩
  · rename_i e he
    split
    · refine ⟨?_, rfl⟩
      intro j e' r hs hr
      rw [slot_set] at hs
      split at hs
      · rename_i hij
        subst hij
        split at hs
        · simp only [Option.some.injEq] at hs
          subst hs
          exact ⟨e, he, hr⟩
        · simp at hs
      · exact ⟨e', hs, hr⟩
    · refine ⟨?_, rfl⟩
      intro j e' r hs hr
      rw [slot_set] at hs
      split at hs
      · split at hs <;> simp at hs
      · exact ⟨e', hs, hr⟩

theorem free_facts (s : Sess) (i : Nat) : RtSub s { s with exchs := s.exchs.set i none } := by
  intro j e' r hs hr
  rw [slot_set] at hs
  split at hs
  · split at hs <;> simp at hs
  · exact ⟨e', hs, hr⟩



theorem findSlot_some (h : RxHdr) : ∀ (l : List (Option Exch)) (k i : Nat), findSlot h l k = some i →
    k ≤ i ∧ ∃ e, l[i - k]? = some (some e) ∧ e.isForRx h = true ∧
      ∀ j e', j < i - k → l[j]? = some (some e') → e'.isForRx h = false := by
  intro l
  induction l with
  | nil => intro k i hf; simp [findSlot] at hf
  | cons x xs ih =>
    intro k i hf
    cases x with
    | none =>
      simp only [findSlot] at hf
      obtain ⟨hk, e, he, hfor, hmin⟩ := ih (k + 1) i hf
      have h1 : i - k = (i - (k + 1)) + 1 := by omega
      refine ⟨by omega, e, by rw [h1, List.getElem?_cons_succ]; exact he, hfor, ?_⟩
      intro j e' hj hje
      cases j with
      | zero => simp at hje
      | succ j => rw [List.getElem?_cons_succ] at hje; exact hmin j e' (by omega) hje
    | some e0 =>
      simp only [findSlot] at hf
      split at hf
      · rename_i hfor
        simp only [Option.some.injEq] at hf
        subst hf
        refine ⟨Nat.le_refl _, e0, by simp, hfor, ?_⟩
        intro j e' hj _
        omega
      · rename_i hnot
        obtain ⟨hk, e, he, hfor, hmin⟩ := ih (k + 1) i hf
        have h1 : i - k = (i - (k + 1)) + 1 := by omega
        refine ⟨by omega, e, by rw [h1, List.getElem?_cons_succ]; exact he, hfor, ?_⟩
        intro j e' hj hje
        cases j with
        | zero =>
          simp only [List.getElem?_cons_zero, Option.some.injEq] at hje
          subst hje
          simpa using hnot
        | succ j => rw [List.getElem?_cons_succ] at hje; exact hmin j e' (by omega) hje

theorem findSlot_none (h : RxHdr) : ∀ (l : List (Option Exch)) (k : Nat), findSlot h l k = none →
    ∀ (j : Nat) (e : Exch), l[j]? = some (some e) → e.isForRx h = false := by
  intro l
  induction l with
  | nil => intro k _ j e hj; simp at hj
  | cons x xs ih =>
    intro k hf j e hj
    cases x with
    | none =>
      simp only [findSlot] at hf
      cases j with
      | zero => simp at hj
      | succ j => rw [List.getElem?_cons_succ] at hj; exact ih (k + 1) hf j e hj
    | some e0 =>
      simp only [findSlot] at hf
      split at hf
      · simp at hf
      · rename_i hnot
        cases j with
        | zero =>
          simp only [List.getElem?_cons_zero, Option.some.injEq] at hj
          subst hj
          simpa using hnot
        | succ j => rw [List.getElem?_cons_succ] at hj; exact ih (k + 1) hf j e hj

theorem slot_eq_some (s : Sess) (i : Nat) (e : Exch) : s.slot i = some e ↔ s.exchs[i]? = some (some e) := by
  simp only [Sess.slot]
  cases h : s.exchs[i]? with
  | none => simp
  | some v => cases v <;> simp

/-- `get_exch_for_rx` answers a slot that holds an exchange with the header's id and the role the
header's initiator flag addresses (initiator message ⇒ our responder exchange), and it is the first such slot -/
theorem getExchForRx_some (s : Sess) (h : RxHdr) (i : Nat) (hf : s.getExchForRx h = some i) :
    ∃ e, s.slot i = some e ∧ e.id = h.exch ∧ e.role.isResponder = h.initiator ∧
      ∀ j e', j < i → s.slot j = some e' → ¬ (e'.id = h.exch ∧ e'.role.isResponder = h.initiator) := by
  obtain ⟨_, e, he, hfor, hmin⟩ := findSlot_some h s.exchs 0 i hf
  simp only [Nat.sub_zero] at he hmin
  simp only [Exch.isForRx, Bool.and_eq_true, beq_iff_eq] at hfor
  refine ⟨e, (slot_eq_some s i e).2 he, hfor.1, hfor.2.symm, ?_⟩
  intro j e' hj hs ⟨h1, h2⟩
  have := hmin j e' hj ((slot_eq_some s j e').1 hs)
  simp [Exch.isForRx, h1, h2] at this

/-- … and `None` only if no live exchange has that (id, role) -/
theorem getExchForRx_none (s : Sess) (h : RxHdr) (hf : s.getExchForRx h = none) :
    ∀ j e, s.slot j = some e → ¬ (e.id = h.exch ∧ e.role.isResponder = h.initiator) := by
  intro j e hs ⟨h1, h2⟩
  have := findSlot_none h s.exchs 0 hf j e ((slot_eq_some s j e).1 hs)
  simp [Exch.isForRx, h1, h2] at this



theorem mrp_postRecv_error_unchanged (m : Mrp) (c : Nat) (a : Option Nat) (rel : Bool) (now : Nat) (e : Err)
    (h : (m.postRecv c a rel now).2 = some e) : (m.postRecv c a rel now).1 = m ∧ e = .duplicate := by
  unfold Mrp.postRecv at h ⊢
  cases a with
  | none => cases rel <;> simp at h
  | some av =>
    cases hm : m.retrans with
    | none => cases rel <;> simp [hm] at h
    | some r =>
      simp only [hm] at h ⊢
      by_cases hne : r.ctr = av
      · cases rel <;> simp [hne] at h
      · simp only [ne_eq, hne, not_false_eq_true, ↓reduceIte, Option.some.injEq] at h ⊢
        exact ⟨trivial, h.symm⟩

theorem mrp_postRecv_fresh_ok (c : Nat) (a : Option Nat) (rel : Bool) (now : Nat) :
    (({} : Mrp).postRecv c a rel now).2 = none := by
  unfold Mrp.postRecv
  cases a <;> cases rel <;> simp

/-- what a received message may do to the exchange slots of its session -/
def RecvSpec (s : Sess) (h : RxHdr) (s' : Sess) (r : Except Err Bool) : Prop :=
  (r = .ok false → ∃ i e m, s.getExchForRx h = some i ∧ s.slot i = some e ∧
      s'.slot i = some { e with mrp := m } ∧ ∀ j, j ≠ i → s'.slot j = s.slot j) ∧
  (r = .ok true → s.getExchForRx h = none ∧ h.initiator = true ∧ h.newOk = true ∧ s.expired = false ∧
      ∃ i m, s.slot i = none ∧ s'.slot i = some { id := h.exch, role := .rp, mrp := m } ∧
      ∀ j, j ≠ i → s'.slot j = s.slot j) ∧
  (∀ er, r = .error er → ∀ j, s'.slot j = s.slot j)

theorem recvSpec_error (s : Sess) (h : RxHdr) (s' : Sess) (er : Err) (hsl : ∀ j, s'.slot j = s.slot j) :
    RecvSpec s h s' (.error er) :=
  ⟨fun hr => by simp at hr, fun hr => by simp at hr, fun _ _ => hsl⟩

/-- **What a received message does to the exchange slots of its session.** -/
theorem postRecv_effect (s : Sess) (h : RxHdr) (now : Nat) :
    RecvSpec s h (s.postRecv h now).1 (s.postRecv h now).2 := by
  unfold Sess.postRecv
  simp only
  split
  · exact recvSpec_error s h _ _ (fun j => rfl)
  · generalize hs0 : ({ s with rx := (Dedup.postRecv s.rx h.ctr s.mode.enc false).1 } : Sess) = s0
    have hsl : ∀ j, s0.slot j = s.slot j := by subst hs0; intro j; rfl
    have hget : s0.getExchForRx h = s.getExchForRx h := by subst hs0; rfl
    split
    · rename_i i hgi
      split
      · rename_i e he
        have herr := mrp_postRecv_error_unchanged e.mrp h.ctr h.ack h.reliable now
        generalize hP : e.mrp.postRecv h.ctr h.ack h.reliable now = P at herr
        obtain ⟨m, err⟩ := P
        cases err with
        | none =>
          refine ⟨fun _ => ?_, fun hr => by simp at hr, fun er hr => by simp at hr⟩
          refine ⟨i, e, m, by rw [← hget]; exact hgi, by rw [← hsl]; exact he, ?_, ?_⟩
          · rw [setMrp_slot]; simp [he]
          · intro j hj
            rw [setMrp_slot]
            have : ¬ i = j := fun h => hj h.symm
            simp [this, hsl]
        | some er =>
          apply recvSpec_error
          intro j
          have := (herr er rfl).1
          simp only at this
          subst this
          rw [setMrp_slot]
          split
          · rename_i hij; subst hij; simp [he, ← hsl]
          · exact hsl j
      · exact recvSpec_error s h _ _ hsl
    · rename_i hgn
      split
      · exact recvSpec_error s h _ _ hsl
      · rename_i hgate
        split
        · exact recvSpec_error s h _ _ hsl
        · rename_i hexp'
          split
          · rename_i s' i ha
            have hadd := addExch_slot s0 s' h.exch .rp i ha
            have hfresh := mrp_postRecv_fresh_ok h.ctr h.ack h.reliable now
            generalize hP : ({} : Mrp).postRecv h.ctr h.ack h.reliable now = P at hfresh
            obtain ⟨m, err⟩ := P
            simp only at hfresh
            subst hfresh
            have hg : h.initiator = true ∧ h.newOk = true := by
              simp only [Bool.or_eq_true, Bool.not_eq_true', not_or, Bool.not_eq_false] at hgate
              exact hgate
            refine ⟨fun hr => by simp at hr, fun _ => ?_, fun er hr => by simp at hr⟩
            refine ⟨by rw [← hget]; exact hgn, hg.1, hg.2, by simpa using hexp', i, m, ?_, ?_, ?_⟩
            · rw [← hsl]; exact hadd.1
            · rw [setMrp_slot]; simp [hadd.2.2 i]
            · intro j hj
              rw [setMrp_slot]
              have : ¬ i = j := fun h => hj h.symm
              simp only [this, ↓reduceIte]
              rw [hadd.2.2 j]
              simp [hj, hsl]
          · exact recvSpec_error s h _ _ hsl


end Transport
